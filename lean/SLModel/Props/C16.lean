import SLModel.Lemmas.CursorBytes
import SLModel.Lemmas.PlanLeaf
import SLModel.Lemmas.Script
import SLModel.Core.Msm
import SLModel.Lemmas.RescoreDrop
import SLModel.Lemmas.HistFill
/-!
# C16 — search never panics on any request   (claimed level: **partial**)

"No panic for any input" is a statement about Rust code paths.  What is proved here are the
*reasons* the panics of the modelled pieces cannot occur — or, where the unchanged code does
panic, exactly when it does:

* **cursor decoding** (`Core/CursorBytes`): the byte-level decoders are total on every byte
  string (`decode_total`, `hexDecode_total`); the unchanged loop (`legacy…`, with
  `from_utf8(chunk).unwrap()`) agrees with them wherever it does not panic
  (`legacy_refines_decode`), panics exactly when the first chunk that is not UTF-8 on its own
  is reached before any non-hex chunk (`legacy_panic_iff`), never on ASCII
  (`legacy_ascii_safe`); negative witness `legacy_cursor_panics` (the 42-byte cursor
  `a é×20 b`).  The code since 0bc4e6f (`repaired…`: UTF-8 test ⇒ error, then the radix
  parse) never panics (`repaired_total`), has the outcome of the byte-level decoder on every
  input (`repaired_eq_decode`) and returns exactly what the original returned wherever that
  did not panic (`legacy_refines_repaired`).
* **planner leaves** (`Core/PlanLeaf`): `leaf_lt_leafCount` — every leaf handed to a scored
  term and every leaf of the score expression is `< leaf_count` (the `assert!` of
  `brute_force` / `wand_loop` cannot fire).  Since /repo commit 458e503 `search_segment` keys
  `term_weights` by `(term key, leaf)` and has no `debug_assert_eq!` any more; for that loop

  --   theorem scoring_path_never_panics : ∀ keysOf dflt q,
  --     segmentVerdict keysOf (plan dflt q) = .fine

  is a FULL theorem (it replaces `key_leaf_functional_partial` and its hypothesis
  `slotsDisjoint`).  The original loop is kept as `legacyTermWeights` /
  `legacySegmentVerdict`: `legacy_termWeights_ok_iff_functional`,
  `legacy_key_leaf_functional_partial`, `legacy_segmentVerdict_cases` and the negative
  witnesses `key_leaf_not_functional[_more]` (query string `rust body:rust`, …) document the
  defect; `former_witnesses_now_fine` evaluates the same requests under the new loop.
* **script_score** (`Core/Script`): the evaluator never reaches its `unwrap()` with an empty
  stack (`eval_no_panic`); compiled operand indices are in range
  (`compile_indices_in_range`); a completed run has the static stack effect
  (`eval_some_depth`); a syntactically well-formed token list compiles to code that leaves
  exactly one value and never underflows (`wellformed_compiles_depth_one`,
  `wellformed_runs`).  `compile ok → no underflow` is *not* a fact of the code (`"+"`
  compiles, `compiles_but_underflows`): underflow is absorbed by `?` and yields `None`.
* **rescore** (`Core/RescoreDrop`): `rescore_drop_never_panics` — removing the window hits the
  rescore query rejects never calls `Vec::remove` out of range and keeps exactly the other hits,
  for every collection order of the rejected indices (`rescore_drop_order_irrelevant`);
  `unsorted_removal_breaks` shows what the sort protects against.
* **histogram fill** (`Core/HistFill`): `hist_fill_total` / `hist_fill_never_overflows` — the
  numeric bucket fill with the `== end` break ends within `end − start + 1` steps and never
  overflows for every pair of `i64` ends; `date_fill_terminates` — with a step of at least
  1 ms (`dateStepOk`) the date fill leaves within `end − start + 1` iterations; legacy:
  `legacy_zero_step_never_ends`, `hist_fill_witnesses`; `bucketStart_checked` — every
  intermediate of the date bucket arithmetic (since d7457e1) is inside the `i64` range,
  `dateFinish_spec` — the fill runs only when both bounds have a bucket; legacy:
  `bucket_start_witnesses`.
* **minimum_should_match** (`Core/Msm`): the `&pct[..len-1]` slice is always on a char
  boundary (`msm_no_panic`), the result never exceeds the term count (`msm_le_termCount`).

Tie to the code: `Drv/C16` runs these definitions; `harness/src/props/c16.rs` compares their
outcome classes with the real `IndexReader::search` and evaluates "no panic, no hang" on the
implementation alone for a stream of structured and mutated requests.
-/
namespace SL.C16
open SL.CursorBytes SL.PlanLeaf SL.Script SL.Msm

/-! ## cursors -/

/-- the byte-level score-cursor decoder is defined on every byte string and never panics -/
theorem decode_total (plus : Bool) (raw : List Nat) : (decodeScore plus raw).isPanic = false := by
  unfold decodeScore
  split
  · rfl
  · exact bindOut_isPanic _ _ (decodePairs_not_panic plus raw) parseScore_not_panic

/-- so is the sort-cursor hex decoder -/
theorem hexDecode_total (plus : Bool) (raw : List Nat) : (hexDecode plus raw).isPanic = false := by
  unfold hexDecode
  split
  · rfl
  · exact decodePairs_not_panic plus raw

/-- the decoders of the code as it is since 0bc4e6f (UTF-8 test ⇒ error, then the radix
parse) never panic -/
theorem repaired_total (plus : Bool) (raw : List Nat) :
    (repairedScore plus raw).isPanic = false ∧ (repairedHexDecode plus raw).isPanic = false := by
  constructor
  · unfold repairedScore
    split
    · rfl
    · exact bindOut_isPanic _ _ (repairedPairs_not_panic plus raw) parseScore_not_panic
  · unfold repairedHexDecode
    split
    · rfl
    · exact repairedPairs_not_panic plus raw

/-- and the fast path of `decode_cursor` (decode + generation test) -/
theorem decodeCursorFast_total (plus : Bool) (raw : List Nat) (gen : Nat) :
    (decodeCursorFast plus raw gen).isPanic = false := by
  unfold decodeCursorFast
  refine bindOut_isPanic _ _ (repaired_total plus raw).1 ?_
  intro c
  split <;> rfl

/-- the code's two-step loop decodes exactly what the nibble decoder decodes, on every byte
string (only the wording of an error may differ) -/
theorem repaired_eq_decode (plus : Bool) (raw : List Nat) :
    (repairedScore plus raw).forget = (decodeScore plus raw).forget ∧
    (repairedHexDecode plus raw).forget = (hexDecode plus raw).forget := by
  constructor
  · unfold repairedScore decodeScore
    split
    · rfl
    · exact forget_bindOut _ _ _ (repairedPairs_forget plus raw)
  · unfold repairedHexDecode hexDecode
    split
    · rfl
    · exact repairedPairs_forget plus raw

/-- the repair changed nothing but the panic: wherever the original decoder did not panic the
repaired one returns the very same result -/
theorem legacy_refines_repaired (plus : Bool) (raw : List Nat) :
    (legacyScore plus raw ≠ .panic → legacyScore plus raw = repairedScore plus raw) ∧
    (legacyHexDecode plus raw ≠ .panic → legacyHexDecode plus raw = repairedHexDecode plus raw) := by
  constructor
  · intro h
    unfold legacyScore repairedScore at *
    split
    · rfl
    · rename_i hl
      simp only [hl, if_false] at h
      have hp : legacyPairs plus raw ≠ .panic := by
        intro hp
        apply h
        simp [hp, bindOut]
      rw [legacyPairs_eq_repaired plus raw hp]
  · intro h
    unfold legacyHexDecode repairedHexDecode at *
    split
    · rfl
    · rename_i hl
      simp only [hl, if_false] at h
      exact legacyPairs_eq_repaired plus raw h

/-- wherever the unchanged decoder does not panic it computes what the byte-level decoder
computes (the repair changes nothing else) -/
theorem legacy_refines_decode (plus : Bool) (raw : List Nat) (h : legacyScore plus raw ≠ .panic) :
    legacyScore plus raw = decodeScore plus raw := by
  unfold legacyScore decodeScore at *
  split
  · rfl
  · rename_i hl
    simp only [hl, if_false] at h
    have hp : legacyPairs plus raw ≠ .panic := by
      intro hp
      apply h
      simp [hp, bindOut]
    rw [legacyPairs_eq plus raw hp]

theorem legacy_refines_hexDecode (plus : Bool) (raw : List Nat) (h : legacyHexDecode plus raw ≠ .panic) :
    legacyHexDecode plus raw = hexDecode plus raw := by
  unfold legacyHexDecode hexDecode at *
  split
  · rfl
  · rename_i hl
    simp only [hl, if_false] at h
    exact legacyPairs_eq plus raw h

/-- the unchanged score-cursor decoder panics exactly on 42-byte strings whose first chunk
that is not valid UTF-8 on its own comes before (= is) the first chunk that is not a hex byte -/
theorem legacy_panic_iff (plus : Bool) (raw : List Nat) :
    legacyScore plus raw = .panic ↔
      (raw.length = cursorHexLen ∧ (firstBadChunk raw).isSome = true ∧
        firstBadChunk raw = firstBadDigit plus raw) := by
  unfold legacyScore
  split
  · rename_i hl
    simp [hl]
  · rename_i hl
    have hl' : raw.length = cursorHexLen := by simpa using hl
    rw [← legacyPairs_panic_iff]
    constructor
    · intro h
      refine ⟨hl', ?_⟩
      cases hp : legacyPairs plus raw with
      | panic => rfl
      | err e => simp [hp, bindOut] at h
      | ok v =>
        simp only [hp, bindOut] at h
        have := parseScore_not_panic v
        simp [h, Out.isPanic] at this
    · rintro ⟨_, h⟩
      simp [h, bindOut]

theorem legacy_hexDecode_panic_iff (plus : Bool) (raw : List Nat) :
    legacyHexDecode plus raw = .panic ↔
      (raw.length % 2 = 0 ∧ (firstBadChunk raw).isSome = true ∧
        firstBadChunk raw = firstBadDigit plus raw) := by
  unfold legacyHexDecode
  split
  · rename_i hl
    simp [hl]
  · rename_i hl
    have hl' : raw.length % 2 = 0 := by simpa using hl
    rw [legacyPairs_panic_iff]
    simp [hl']

/-- an ASCII-only cursor never panics, not even in the unchanged decoder -/
theorem legacy_ascii_safe (plus : Bool) (raw : List Nat) (h : ∀ b ∈ raw, b < 128) :
    legacyScore plus raw ≠ .panic ∧ legacyHexDecode plus raw ≠ .panic := by
  have hf := firstBadChunk_none_of_ascii raw h
  constructor
  · intro hp
    have := (legacy_panic_iff plus raw).mp hp
    simp [hf] at this
  · intro hp
    have := (legacy_hexDecode_panic_iff plus raw).mp hp
    simp [hf] at this

/-- a successfully decoded cursor has 42 bytes, version 1 and a bounded `returned` -/
theorem decode_ok_shape (plus : Bool) (raw : List Nat) (c : ScoreCursor) (h : decodeScore plus raw = .ok c) :
    raw.length = cursorHexLen ∧ c.returned ≤ maxCursorAdvance := by
  unfold decodeScore at h
  split at h
  · simp at h
  · rename_i hl
    refine ⟨by simpa using hl, ?_⟩
    cases hp : decodePairs plus raw with
    | panic => simp [hp, bindOut] at h
    | err e => simp [hp, bindOut] at h
    | ok v =>
      simp only [hp, bindOut] at h
      unfold parseScore at h
      split at h
      · split at h
        · simp at h
        · simp only [] at h
          split at h
          · simp at h
          · rename_i hr
            simp only [Out.ok.injEq] at h
            subst h
            simpa using hr
      · simp at h

/-- the cursor of the known defect: `"a" + "é"×20 + "b"` -/
def witnessCursor : List Nat := 97 :: ((List.replicate 20 [195, 169]).flatten ++ [98])

/-- NEGATIVE WITNESS (unchanged tree): the 42-byte cursor `a é×20 b` panics in
`PaginationCursor::decode`, and — even length — in `hex_decode` -/
theorem legacy_cursor_panics :
    legacyScore true witnessCursor = .panic ∧ legacyHexDecode true witnessCursor = .panic := by
  decide

/-- … while the byte-level decoders and the repaired code return an error on it -/
theorem decode_witness_is_error :
    (decodeScore true witnessCursor).cls = "error" ∧ (hexDecode true witnessCursor).cls = "error" ∧
    (repairedScore true witnessCursor).cls = "error" ∧ (repairedHexDecode true witnessCursor).cls = "error" := by
  decide

/-- non-vacuity: a valid cursor decodes (generation 7, score bits 0x3f800000, segment 2,
doc 5, returned 10), in both decoders, with and without the sign rule -/
example :
    decodeScore false (encodeScore ⟨7, 1065353216, 2, 5, 10⟩) = .ok ⟨7, 1065353216, 2, 5, 10⟩ ∧
    legacyScore true (encodeScore ⟨7, 1065353216, 2, 5, 10⟩) = .ok ⟨7, 1065353216, 2, 5, 10⟩ := by
  decide

/-- non-vacuity of `legacy_panic_iff`'s error side: an aligned `é` is an error, not a panic -/
example : legacyHexDecode true [195, 169] = .err "decoding cursor: not a hex byte" := by decide

/-- the sign rule: `"+f"` is the byte 15 with it and an error without -/
example : hexDecode true [43, 102] = .ok [15] ∧ (hexDecode false [43, 102]).cls = "error" := by decide

/-! ## planner leaves -/

section Plan
variable {κ K : Type}

/-- every leaf of a term group of the plan, and every leaf of the score expression, is below
the builder's leaf counter; `leaf_count` is that counter -/
theorem plan_leaves_lt (dflt : List κ) (q : Q κ) :
    (∀ g ∈ (plan dflt q).groups, ∀ l ∈ groupLeaves g, l < (plan dflt q).leafCount) ∧
    (∀ l ∈ optLeaves (plan dflt q).scorer, l < (plan dflt q).leafCount) := by
  have hg := build_good dflt q true St.empty
  obtain ⟨_, ⟨new, hnew, hl⟩, he⟩ := hg
  have hnew' : (build dflt true q St.empty).1.groups = new := hnew
  have hle : (build dflt true q St.empty).1.next ≤ (plan dflt q).leafCount := by
    simp only [plan]
    cases (build dflt true q St.empty).2 with
    | none => exact Nat.le_refl _
    | some x =>
      simp only
      cases x.maxLeaf with
      | none => exact Nat.le_refl _
      | some m => exact Nat.le_max_left _ _
  refine ⟨?_, ?_⟩
  · intro g hgm l hlm
    have hgm' : g ∈ new := by
      have : (plan dflt q).groups = (build dflt true q St.empty).1.groups := rfl
      rw [this, hnew'] at hgm
      exact hgm
    have := (hl g hgm' l hlm).2
    omega
  · intro l hlm
    have hs : (plan dflt q).scorer = (build dflt true q St.empty).2 := rfl
    rw [hs] at hlm
    have := (he l hlm).2
    omega

/-- **leaf_lt_leafCount**: every scored term that reaches `search_segment` carries a leaf
`< plan.leaf_count` — for every query, default fields and analysis/expansion `keysOf` -/
theorem leaf_lt_leafCount (keysOf : κ → κ → Exp → List K) (dflt : List κ) (q : Q κ) :
    ∀ p ∈ qualified keysOf (plan dflt q).groups, p.2 < (plan dflt q).leafCount := by
  rintro ⟨k, l⟩ hp
  obtain ⟨g, hg, hl⟩ := qualified_leaf_mem keysOf _ k l hp
  exact (plan_leaves_lt dflt q).1 g hg l hl

/-- the `assert!` of `brute_force` / `wand_loop` holds for every plan -/
theorem wand_assert_holds (keysOf : κ → κ → Exp → List K) (dflt : List κ) (q : Q κ) :
    leavesInRange (plan dflt q).scorer (plan dflt q).leafCount (qualified keysOf (plan dflt q).groups) = true := by
  unfold leavesInRange
  split
  · rfl
  · simp only [List.all_eq_true, decide_eq_true_eq]
    exact leaf_lt_leafCount keysOf dflt q

variable [DecidableEq K]

/-! #### the loop as it is now (keyed by `(term key, leaf)`) -/

/-- the scored terms the loop hands to `execute_top_k…` are exactly the qualified terms, each
`(key, leaf)` once -/
theorem scoredTerms_spec (qts : List (K × Nat)) :
    (∀ x, x ∈ termWeights [] qts ↔ x ∈ qts) ∧ (termWeights [] qts).Nodup := by
  refine ⟨fun x => ?_, termWeights_nodup qts [] List.nodup_nil⟩
  rw [mem_termWeights]
  simp

/-- **FULL (was `key_leaf_functional_partial`)**: for every query, default fields and
analysis/expansion `keysOf`, no assertion of the scoring path fires on any segment — the
loop has no assertion left, and every scored term's leaf indexes the `leaf_count` buffer.
No hypothesis about shared term keys is needed any more. -/
theorem scoring_path_never_panics (keysOf : κ → κ → Exp → List K) (dflt : List κ) (q : Q κ) :
    segmentVerdict keysOf (plan dflt q) = .fine := by
  unfold segmentVerdict
  simp only
  have : leavesInRange (plan dflt q).scorer (plan dflt q).leafCount
      (termWeights [] (qualified keysOf (plan dflt q).groups)) = true := by
    unfold leavesInRange
    split
    · rfl
    · simp only [List.all_eq_true, decide_eq_true_eq]
      intro x hx
      exact leaf_lt_leafCount keysOf dflt q x (((scoredTerms_spec _).1 x).mp hx)
  simp [this]

/-- in particular on the inputs of the original defect: the repaired loop keeps both leaves of
a shared key (one `ScoredTerm` per scoring clause) -/
theorem shared_key_keeps_both_leaves (k : K) (l1 l2 : Nat) (h : l1 ≠ l2) :
    termWeights [] [(k, l1), (k, l2)] = [(k, l1), (k, l2)] := by
  simp [termWeights, Ne.symm h]

/-! #### the ORIGINAL loop (before 458e503): kept as the kernel-checked account of the defect -/

/-- the original `term_weights` loop completes (no "Inconsistent leaf for term key") iff one
term key ↦ one leaf -/
theorem termWeights_ok_iff_functional (qts : List (K × Nat)) :
    (legacyTermWeights [] qts).isSome = true ↔ functional qts = true := by
  rw [termWeights_isSome_iff, functional_iff_Fn]
  constructor
  · exact fun h => h.2
  · intro h
    exact ⟨fun q _ l' hl' => by simp [lookup] at hl', h⟩

omit [DecidableEq K] in
theorem mem_slots (keysOf : κ → κ → Exp → List K) (groups : List (Group κ)) (l : Nat) (ks : List K) :
    (l, ks) ∈ slots keysOf groups ↔
      ∃ g ∈ groups, g.score = true ∧ ∃ s ∈ g.fields, targetLeaf g s = some l ∧ ks = keysOf s.field g.term g.exp := by
  simp only [slots, List.mem_flatMap]
  constructor
  · rintro ⟨g, hg, hm⟩
    split at hm
    · rename_i hs
      simp only [List.mem_filterMap, Option.map_eq_some_iff, Prod.mk.injEq] at hm
      obtain ⟨s, hs', l', hl', rfl, rfl⟩ := hm
      exact ⟨g, hg, hs, s, hs', hl', rfl⟩
    · simp at hm
  · rintro ⟨g, hg, hs, s, hs', ht, rfl⟩
    refine ⟨g, hg, ?_⟩
    simp only [hs, if_true, List.mem_filterMap, Option.map_eq_some_iff, Prod.mk.injEq]
    exact ⟨s, hs', l, ht, rfl, rfl⟩

/-- one key ↦ one leaf holds exactly when slots with different leaves have disjoint keys -/
theorem functional_iff_slotsDisjoint (keysOf : κ → κ → Exp → List K) (groups : List (Group κ)) :
    functional (qualified keysOf groups) = true ↔ slotsDisjoint (slots keysOf groups) = true := by
  rw [functional_iff_Fn]
  simp only [slotsDisjoint, List.all_eq_true, Bool.or_eq_true, beq_iff_eq, Bool.not_eq_true',
    List.contains_eq_mem, decide_eq_false_iff_not]
  constructor
  · intro hf a ha b hb
    by_cases hab : a.1 = b.1
    · exact Or.inl hab
    · right
      intro k hka hkb
      obtain ⟨g1, hg1, hs1, s1, hm1, ht1, hk1⟩ := (mem_slots keysOf groups a.1 a.2).mp ha
      obtain ⟨g2, hg2, hs2, s2, hm2, ht2, hk2⟩ := (mem_slots keysOf groups b.1 b.2).mp hb
      have q1 : (k, a.1) ∈ qualified keysOf groups :=
        (mem_qualified keysOf groups k a.1).mpr ⟨g1, hg1, hs1, s1, hm1, ht1, hk1 ▸ hka⟩
      have q2 : (k, b.1) ∈ qualified keysOf groups :=
        (mem_qualified keysOf groups k b.1).mpr ⟨g2, hg2, hs2, s2, hm2, ht2, hk2 ▸ hkb⟩
      exact hab (hf _ q1 _ q2 rfl)
  · intro hd a ha b hb hab
    obtain ⟨ka, la⟩ := a
    obtain ⟨kb, lb⟩ := b
    simp only at hab
    subst hab
    obtain ⟨g1, hg1, hs1, s1, hm1, ht1, hk1⟩ := (mem_qualified keysOf groups ka la).mp ha
    obtain ⟨g2, hg2, hs2, s2, hm2, ht2, hk2⟩ := (mem_qualified keysOf groups ka lb).mp hb
    have m1 := (mem_slots keysOf groups la _).mpr ⟨g1, hg1, hs1, s1, hm1, ht1, rfl⟩
    have m2 := (mem_slots keysOf groups lb _).mpr ⟨g2, hg2, hs2, s2, hm2, ht2, rfl⟩
    rcases hd _ m1 _ m2 with h | h
    · exact h
    · exact absurd hk2 (h ka hk1)

/-- **key_leaf_functional_partial**: under `slotsDisjoint` neither assertion of the scoring
path fires on any segment — for every query, default fields and `keysOf` -/
theorem legacy_key_leaf_functional_partial (keysOf : κ → κ → Exp → List K) (dflt : List κ) (q : Q κ)
    (h : slotsDisjoint (slots keysOf (plan dflt q).groups) = true) :
    legacySegmentVerdict keysOf (plan dflt q) = .fine := by
  have hf := (functional_iff_slotsDisjoint keysOf (plan dflt q).groups).mpr h
  have ht := (termWeights_ok_iff_functional _).mpr hf
  unfold legacySegmentVerdict
  simp only
  cases htw : legacyTermWeights [] (qualified keysOf (plan dflt q).groups) with
  | none => simp [htw] at ht
  | some m => simp [wand_assert_holds keysOf dflt q]

/-- the verdict is never `leafOutOfRange`, and it is `inconsistentLeaf` exactly when the
hypothesis of the partial theorem fails -/
theorem segmentVerdict_cases (keysOf : κ → κ → Exp → List K) (dflt : List κ) (q : Q κ) :
    legacySegmentVerdict keysOf (plan dflt q) =
      (if slotsDisjoint (slots keysOf (plan dflt q).groups) then .fine else .inconsistentLeaf) := by
  split
  · rename_i h
    exact legacy_key_leaf_functional_partial keysOf dflt q h
  · rename_i h
    have hf : ¬ functional (qualified keysOf (plan dflt q).groups) = true :=
      fun hf => h ((functional_iff_slotsDisjoint keysOf _).mp hf)
    have ht : ¬ (legacyTermWeights [] (qualified keysOf (plan dflt q).groups)).isSome = true :=
      fun ht => hf ((termWeights_ok_iff_functional _).mp ht)
    unfold legacySegmentVerdict
    simp only
    cases htw : legacyTermWeights [] (qualified keysOf (plan dflt q).groups) with
    | none => rfl
    | some m => simp [htw] at ht

/-- a plan with at most one leaf (a single term, a most_fields/cross_fields multi_match, …)
can never trip the assertion -/
theorem legacy_single_leaf_fine (keysOf : κ → κ → Exp → List K) (dflt : List κ) (q : Q κ)
    (h : (plan dflt q).leafCount ≤ 1) : legacySegmentVerdict keysOf (plan dflt q) = .fine := by
  rw [segmentVerdict_cases]
  have : functional (qualified keysOf (plan dflt q).groups) = true := by
    rw [functional_iff_Fn]
    intro a ha b hb _
    have h1 := leaf_lt_leafCount keysOf dflt q a ha
    have h2 := leaf_lt_leafCount keysOf dflt q b hb
    omega
  simp [(functional_iff_slotsDisjoint keysOf _).mp this]

end Plan

/-- atoms for the witnesses: field `body` = 0, term `rust` = 1, other term = 2; a key is the
(field, term) pair (exact expansion, identity analysis) -/
def wKeys (f t : Nat) (_ : Exp) : List (Nat × Nat) := [(f, t)]

/-- NEGATIVE WITNESS (original code, before 458e503): query string `rust body:rust` with default field
`body` — both terms get their own leaf, both expand to the key `body:rust`, the
`debug_assert_eq!` fires -/
theorem key_leaf_not_functional :
    legacySegmentVerdict wKeys (plan [0] (.queryString [⟨none, 1⟩, ⟨some 0, 1⟩] [] none)) = .inconsistentLeaf ∧
    functional (qualified wKeys (plan [0] (.queryString [⟨none, 1⟩, ⟨some 0, 1⟩] [] none)).groups) = false := by
  decide

/-- the same defect through other doors: a repeated term, a bool query with the same term in
two scoring clauses, best_fields over a repeated field -/
theorem key_leaf_not_functional_more :
    legacySegmentVerdict wKeys (plan [0] (.queryString [⟨none, 1⟩, ⟨none, 1⟩] [] none)) = .inconsistentLeaf ∧
    legacySegmentVerdict wKeys (plan [0] (.bool [.term .exact 0 1] [.term .exact 0 1] [])) = .inconsistentLeaf ∧
    legacySegmentVerdict wKeys (plan [0] (.multiMatch .best [1] [] [0, 0])) = .inconsistentLeaf := by
  decide

/-- non-vacuity of the partial theorem: `rust other`, a must_not duplicate, best_fields over
two distinct fields, most_fields over a repeated field are all fine -/
example :
    legacySegmentVerdict wKeys (plan [0] (.queryString [⟨none, 1⟩, ⟨none, 2⟩] [] none)) = .fine ∧
    legacySegmentVerdict wKeys (plan [0] (.bool [.term .exact 0 1] [] [.term .exact 0 1])) = .fine ∧
    legacySegmentVerdict wKeys (plan [0] (.multiMatch .best [1, 2] [] [0, 3])) = .fine ∧
    legacySegmentVerdict wKeys (plan [0] (.multiMatch .most [1] [] [0, 0])) = .fine := by
  decide

example : slotsDisjoint (slots wKeys (plan [0] (.queryString [⟨none, 1⟩, ⟨none, 2⟩] [] none)).groups) = true := by
  decide

/-- non-vacuity of `leaf_lt_leafCount`: a plan with three leaves -/
example : (plan [0] (.bool [.term .exact 0 1, .multiMatch .best [1] [] [0, 3]] [] [])).leafCount = 3 := by
  decide

/-- … and the same four requests under the loop as it is now: fine -/
theorem former_witnesses_now_fine :
    segmentVerdict wKeys (plan [0] (.queryString [⟨none, 1⟩, ⟨some 0, 1⟩] [] none)) = .fine ∧
    segmentVerdict wKeys (plan [0] (.queryString [⟨none, 1⟩, ⟨none, 1⟩] [] none)) = .fine ∧
    segmentVerdict wKeys (plan [0] (.bool [.term .exact 0 1] [.term .exact 0 1] [])) = .fine ∧
    segmentVerdict wKeys (plan [0] (.multiMatch .best [1] [] [0, 0])) = .fine ∧
    termWeights [] (qualified wKeys (plan [0] (.queryString [⟨none, 1⟩, ⟨some 0, 1⟩] [] none)).groups)
      = [((0, 1), 0), ((0, 1), 1)] := by
  decide

/-! ## script_score -/

section ScriptS
variable {V : Type}

/-- **the evaluator never panics**: whatever the instruction list, `evaluate` returns `None`
or `Some` — the final `stack.pop().unwrap()` is never reached with an empty stack -/
theorem eval_no_panic (ar : Arith V) (env : Env V) (instrs : List Instr) :
    (eval ar env instrs).isPanic = false := by
  unfold eval
  split
  · rfl
  · rename_i stack _
    split
    · rfl
    · rename_i hlen
      match stack, hlen with
      | [], hlen => simp at hlen
      | v :: rest, _ =>
        simp only
        split <;> rfl

/-- a result `Some v` means the instruction list has the static stack effect 0 → 1 (in
particular it never underflowed) -/
theorem eval_some_depth (ar : Arith V) (env : Env V) (instrs : List Instr) (v : V)
    (h : eval ar env instrs = .some v) : depth instrs 0 = some 1 := by
  unfold eval at h
  split at h
  · simp at h
  · rename_i stack hrun
    split at h
    · simp at h
    · rename_i hlen
      have := run_depth ar env instrs [] stack hrun
      simp at hlen
      simpa [hlen] using this

/-- stack underflow (static depth undefined) is absorbed: the result is `None` -/
theorem underflow_is_none (ar : Arith V) (env : Env V) (instrs : List Instr)
    (h : depth instrs 0 = none) : (eval ar env instrs).toOption = none ∧ (eval ar env instrs).isPanic = false := by
  refine ⟨?_, eval_no_panic ar env instrs⟩
  unfold eval
  split
  · rfl
  · rename_i stack hrun
    have := run_depth ar env instrs [] stack hrun
    simp [h] at this

end ScriptS

/-- every `PushParam`/`PushField` index produced by `compile_script` is inside the tables it
indexes at run time (`params.get(idx)?`, `fields.get(idx)?` never miss) -/
theorem compile_indices_in_range (script : List Nat) (params nfast : List (List Nat)) (c : Compiled)
    (h : compile script params nfast = some c) :
    c.nParams = params.length ∧ ∀ i ∈ c.instrs, instrOk c.nParams c.fields.length i = true := by
  unfold compile at h
  split at h
  · simp at h
  · split at h
    · simp at h
    · split at h
      · simp at h
      · split at h
        · simp at h
        · split at h
          · simp at h
          · split at h
            · simp at h
            · rename_i instrs fields hemit
              simp only [Option.some.injEq] at h
              subst h
              obtain ⟨_, h2, _⟩ := emit_spec params nfast _ [] [] instrs fields hemit (by simp)
              exact ⟨rfl, h2⟩

/-- **stack discipline of the compiler**: a well-formed infix token list (operands and binary
operators alternate, unary minus / `(` only in operand position, parentheses balanced) goes
through `shunting_yard` and `emit` into code whose static stack effect is exactly 0 → 1 -/
theorem wellformed_compiles_depth_one (toks : List Tok) (hw : wf toks true 0 = true) :
    ∃ rpn, shuntingYard toks = some rpn ∧ tdepth rpn 0 = some 1 ∧
      ∀ params nfast instrs fields, emit params nfast rpn [] [] = some (instrs, fields) →
        depth instrs 0 = some 1 := by
  obtain ⟨rpn, h1, h2⟩ := shuntGo_wf toks [] [] true 0 hw rfl rfl (by simp [tdepth, nb])
  refine ⟨rpn, h1, h2, ?_⟩
  intro params nfast instrs fields he
  obtain ⟨_, _, new, h3, h4⟩ := emit_spec params nfast rpn [] [] instrs fields he (by simp)
  simp only [List.reverse_nil, List.nil_append] at h3
  rw [h3, h4, h2]

/-- … and, when the arithmetic does not fail (finite results, no division by zero) and the
environment has the compiled tables, the run completes with exactly one value -/
theorem wellformed_runs {V : Type} (ar : Arith V) (env : Env V) (hat : ArithTotal ar)
    (toks : List Tok) (hw : wf toks true 0 = true) (params nfast : List (List Nat))
    (rpn : List Tok) (hs : shuntingYard toks = some rpn)
    (instrs : List Instr) (fields : List (List Nat)) (he : emit params nfast rpn [] [] = some (instrs, fields))
    (hp : env.params.length = params.length) (hf : env.nFields = fields.length) :
    ∃ v, run ar env instrs [] = some [v] := by
  obtain ⟨rpn', h1, _, h3⟩ := wellformed_compiles_depth_one toks hw
  rw [hs] at h1
  simp only [Option.some.injEq] at h1
  subst h1
  have hd := h3 params nfast instrs fields he
  obtain ⟨_, h2, _⟩ := emit_spec params nfast rpn [] [] instrs fields he (by simp)
  obtain ⟨s', hr, hlen⟩ := run_total ar env hat instrs [] 1 (by rw [hp, hf]; exact h2) (by simpa using hd)
  match s', hlen with
  | [v], _ => exact ⟨v, hr⟩

/-- the fuel of the tokenizer model is not observable: any fuel above the number of characters
gives the result of `tokenize` (so a `none` of `tokenize` is always one of the code's `bail!`s) -/
theorem tokenize_fuel_irrelevant (input : List Nat) (fuel : Nat) (h : input.length < fuel) :
    tokenizeGo fuel input true [] = tokenize input :=
  tokenizeGo_fuel fuel (input.length + 1) input true [] h (Nat.lt_succ_self _)

/-- arithmetic over `Nat` that never fails (for the examples) -/
def natArith : Arith Nat :=
  ⟨fun a b => some (a + b), fun a b => some (a - b), fun a b => some (a * b), fun a b => some (a / b),
   fun a => some a, fun _ => true⟩

def natEnv : Env Nat := ⟨fun _ _ => 2, [], fun _ => 0, 0, 3⟩

/-- `compile ok → no underflow` is NOT a fact of the code: the script `+` compiles (the
compiler does not check arity) and evaluation underflows — into `None`, not into a panic -/
theorem compiles_but_underflows :
    (compile [43] [] []).isSome = true ∧
    (compile [43] [] []).map (fun c => depth c.instrs 0) = some none ∧
    (compile [43] [] []).map (fun c => (eval natArith natEnv c.instrs).toOption) = some none := by
  decide

/-- non-vacuity: `_score * (2 + 2)` tokenizes to a well-formed list, compiles, and evaluates
(score 3, constants read as 2) to 12 -/
example :
    (tokenize [95, 115, 99, 111, 114, 101, 32, 42, 32, 40, 50, 32, 43, 32, 50, 41]).map (fun t => wf t true 0) = some true ∧
    (compile [95, 115, 99, 111, 114, 101, 32, 42, 32, 40, 50, 32, 43, 32, 50, 41] [] []).map
      (fun c => (eval natArith natEnv c.instrs).toOption) = some (some 12) := by
  decide

/-- compile errors: unsupported character `$`, two dots, unbalanced parenthesis, unknown field -/
example :
    compile [36] [] [] = none ∧ compile [49, 46, 46, 50] [] [] = none ∧
    compile [40, 49] [] [] = none ∧ compile [120] [] [] = none ∧ (compile [120] [] [[120]]).isSome = true := by
  decide


/-! ## rescore: removing the window hits the rescore query rejects -/

section Rescore
open SL.RescoreDrop
variable {α : Type}

/-- **`rescore_hits` never removes out of range**: whatever indices of the hit list were
collected as rejected, and in whatever order (the code collects them segment by segment from a
hash map), sorting + de-duplicating + removing back to front succeeds (`Vec::remove` never
panics) and leaves exactly the hits that were not rejected, in their order -/
theorem rescore_drop_never_panics (hits : List α) (toRemove : List Nat)
    (h : ∀ i ∈ toRemove, i < hits.length) :
    dropRejected hits toRemove = some (keepSpec hits toRemove) := by
  obtain ⟨hp, hm⟩ := sortDescDedup_spec toRemove
  unfold dropRejected
  rw [removeSeq_desc _ hits (fun i hi => h i ((hm i).mp hi)) hp]
  simp only [keepSpec]
  rw [keepFrom_congr _ _ hm]

/-- the collection order (and repetitions) of the rejected indices is irrelevant -/
theorem rescore_drop_order_irrelevant (hits : List α) (rm rm' : List Nat)
    (h : ∀ i ∈ rm, i < hits.length) (hs : ∀ y, y ∈ rm ↔ y ∈ rm') :
    dropRejected hits rm = dropRejected hits rm' := by
  rw [rescore_drop_never_panics hits rm h,
    rescore_drop_never_panics hits rm' (fun i hi => h i ((hs i).mpr hi))]
  simp only [keepSpec]
  rw [keepFrom_congr _ _ hs]

/-- the surviving list is never longer than the hit list, and nothing is dropped when
nothing was rejected -/
theorem rescore_drop_nothing_rejected (hits : List α) : dropRejected hits [] = some hits := by
  rw [rescore_drop_never_panics hits [] (by simp)]
  simp only [keepSpec]
  rw [keepFrom_none [] hits 0 (by simp)]

end Rescore

/-- WHY THE SORT IS NEEDED (negative witnesses for a variant that removes in reverse
collection order): with the rejected indices collected as `0, 2` (segment 0) then `1`
(segment 1) the removal runs out of range — `Vec::remove` panics; with `2` collected before
`0` the wrong hit is dropped silently -/
theorem unsorted_removal_breaks :
    SL.RescoreDrop.dropUnsorted [10, 20, 30] [0, 2, 1] = none ∧
    SL.RescoreDrop.dropRejected [10, 20, 30] [0, 2, 1] = some [] ∧
    SL.RescoreDrop.dropUnsorted [10, 20, 30, 40] [2, 0] = some [20, 30] ∧
    SL.RescoreDrop.dropRejected [10, 20, 30, 40] [2, 0] = some [20, 40] := by
  decide

/-- non-vacuity: three of five window hits rejected, collected in segment order -/
example : SL.RescoreDrop.dropRejected [1, 2, 3, 4, 5] [3, 0, 3, 1] = some [3, 5] := by decide


/-! ## histogram / date_histogram: the bucket fill between the bounds -/

section HistFillS
open SL.HistFill

theorem fill_fuel_mono_add (m n : Nat) (cur stop : Int) (acc : List Int) (r : Out)
    (h : fill n cur stop acc = some r) : fill (n + m) cur stop acc = some r := by
  induction m with
  | zero => exact h
  | succ m ih => exact fill_fuel_mono (n + m) cur stop acc r ih

/-- **the numeric fill (with the `== end` break) terminates within `end − start + 1` steps and
never overflows**, for every pair of `i64` ends — including `end = i64::MAX`, where the ends
of bounds beyond the `i64` range saturate to -/
theorem hist_fill_total (start stop : Int) (hstop : stop ≤ i64Max) :
    fill ((stop - start).toNat + 1) start stop [] =
      some (.done (if start ≤ stop then keysFrom start ((stop - start).toNat + 1) else [])) := by
  by_cases h : start ≤ stop
  · have := fill_spec (stop - start).toNat start stop [] hstop (by omega)
    simpa [h] using this
  · have h0 : (stop - start).toNat = 0 := by omega
    simp [h0, fill, h]

/-- whatever the fuel, a result of the repaired loop is `done` with exactly those keys: the
`bucket_id += 1` overflow cannot happen -/
theorem hist_fill_never_overflows (n : Nat) (start stop : Int) (hstop : stop ≤ i64Max) (r : Out)
    (h : fill n start stop [] = some r) :
    r = .done (if start ≤ stop then keysFrom start ((stop - start).toNat + 1) else []) := by
  have hs := hist_fill_total start stop hstop
  generalize hN : (stop - start).toNat + 1 = N at hs
  have h1 := fill_fuel_mono_add N n start stop [] r h
  have h2 := fill_fuel_mono_add n N start stop [] _ hs
  rw [Nat.add_comm] at h2
  rw [h1] at h2
  exact Option.some.inj h2

/-- the number of insertions is `end − start + 1` (0 when the ends are reversed) -/
theorem hist_fill_count (start stop : Int) (h : start ≤ stop) :
    (keysFrom start ((stop - start).toNat + 1)).length = (stop - start + 1).toNat := by
  rw [keysFrom_length]
  omega

/-- **date fill**: once validation guarantees a step of at least one millisecond
(`dateStepOk`), the loop leaves — past `end`, or at the `checked_add` overflow — within
`end − start + 1` iterations, for every pair of ends -/
theorem date_fill_terminates (step start stop : Int) (hs : dateStepOk step = true) :
    ∃ r, dateFill step ((stop - start).toNat + 2) start stop 0 = some r := by
  have h1 : 1 ≤ step := by simpa [dateStepOk] using hs
  exact dateFill_terminates step h1 ((stop - start).toNat + 1) start stop 0 (by omega)

/-- LEGACY (before the repair; validation accepted every parsable `fixed_interval`): a step
of 0 ms — `"0s"`, `"0.0001ms"`, anything below a millisecond truncates to 0 — never advances:
no amount of fuel ends the loop -/
theorem legacy_zero_step_never_ends (n : Nat) (start stop : Int) (h : start ≤ stop) (hi : inI64 start = true) :
    dateFill 0 n start stop 0 = none :=
  dateFill_zero_never n start stop 0 h hi


/-- **the date bucket arithmetic never overflows**: whenever `bucket_start` yields a key, the
shifted value, the product and the key itself are all inside the `i64` range (each step is a
checked operation), whatever the float step `q` returns -/
theorem bucketStart_checked (q : Int → Int → Int) (value offset step r : Int)
    (h : bucketStart q value offset step = some r) :
    inI64 (value - offset) = true ∧ inI64 (clamp (q (value - offset) step) * step) = true ∧ inI64 r = true ∧
    r = clamp (q (value - offset) step) * step + offset := by
  unfold bucketStart checked at h
  split at h
  · simp at h
  · rename_i d hd
    split at hd
    · rename_i h1
      simp only [Option.some.injEq] at hd
      subst hd
      split at h
      · simp at h
      · rename_i p hp
        split at hp
        · rename_i h2
          simp only [Option.some.injEq] at hp
          subst hp
          split at h
          · rename_i h3
            simp only [Option.some.injEq] at h
            subst h
            exact ⟨h1, h2, h3, rfl⟩
          · simp at h
        · simp at hp
    · simp at hd

/-- the fill of `finish` runs only when both bounds have a bucket, and then — with a step of
at least one millisecond — it ends -/
theorem dateFinish_spec (q : Int → Int → Int) (step offset lo hi : Int) (hs : dateStepOk step = true) :
    (dateFinish q step offset lo hi 0 = none ↔
      (bucketStart q lo offset step = none ∨ bucketStart q hi offset step = none)) ∧
    (∀ a b, bucketStart q lo offset step = some a → bucketStart q hi offset step = some b →
      ∃ r, dateFinish q step offset lo hi ((max a b - min a b).toNat + 2) = some (some r)) := by
  constructor
  · unfold dateFinish
    cases bucketStart q lo offset step <;> cases bucketStart q hi offset step <;> simp
  · intro a b ha hb
    obtain ⟨r, hr⟩ := date_fill_terminates step (min a b) (max a b) hs
    exact ⟨r, by simp [dateFinish, ha, hb, hr]⟩

end HistFillS

/-- LEGACY NEGATIVE WITNESSES (decide): bounds `{min: 1e300, max: 1e300}` saturate both ends
to `i64::MAX` — the loop without the break overflows after its first insertion, the loop
with the break is done; a step of 0 ms is refused by `dateStepOk` and spins (bounds
`"0".."10000"`, fuel 50), a step of 1 ms ends -/
theorem hist_fill_witnesses :
    SL.HistFill.legacyFill 3 SL.HistFill.i64Max SL.HistFill.i64Max [] = some (.overflow [SL.HistFill.i64Max]) ∧
    SL.HistFill.fill 3 SL.HistFill.i64Max SL.HistFill.i64Max [] = some (.done [SL.HistFill.i64Max]) ∧
    SL.HistFill.legacyFill 4 (SL.HistFill.i64Max - 1) SL.HistFill.i64Max [] =
      some (.overflow [SL.HistFill.i64Max - 1, SL.HistFill.i64Max]) ∧
    SL.HistFill.dateStepOk 0 = false ∧
    SL.HistFill.dateFill 0 50 0 10000 0 = none ∧
    SL.HistFill.dateFill 1 50 0 10 0 = some (.past 11) ∧
    SL.HistFill.dateFill 5 50 (SL.HistFill.i64Max - 7) SL.HistFill.i64Max 0 = some (.addOverflow 2) := by
  decide

/-- LEGACY NEGATIVE WITNESSES for `bucket_start` (decide; `q` = exact ceiling division):
bound `"-9.3e18"` (saturated to `i64::MIN`) with offset `30m` and step `1d` — the original
subtracts with overflow; bound `"9.3e18"` (`i64::MAX`), step `1w`, offset 10^18 ms — it adds
with overflow; the checked version has no bucket for either -/
theorem bucket_start_witnesses :
    SL.HistFill.legacyBucketStart SL.HistFill.ceilDiv SL.HistFill.i64Min 1800000 86400000 = .subOverflow ∧
    SL.HistFill.bucketStart SL.HistFill.ceilDiv SL.HistFill.i64Min 1800000 86400000 = none ∧
    SL.HistFill.legacyBucketStart SL.HistFill.ceilDiv SL.HistFill.i64Max 1000000000000000000 604800000 = .addOverflow ∧
    SL.HistFill.bucketStart SL.HistFill.ceilDiv SL.HistFill.i64Max 1000000000000000000 604800000 = none ∧
    SL.HistFill.bucketStart SL.HistFill.ceilDiv 10000 0 1000 = some 10000 ∧
    SL.HistFill.dateFinish SL.HistFill.ceilDiv 1000 0 0 10000 20 = some (some (.past 11)) ∧
    SL.HistFill.dateFinish SL.HistFill.ceilDiv 86400000 1800000 SL.HistFill.i64Min 0 20 = none := by
  decide

/-! ## minimum_should_match -/

/-- a string that ends with `%` can be sliced one byte before its end: that index is a
char boundary (the byte there is `%`, not a continuation byte) -/
theorem pct_slice_on_boundary (bs : List Nat) (h : endsWithPct bs = true) :
    isBoundary bs (bs.length - 1) = true := by
  unfold endsWithPct at h
  unfold isBoundary
  have hl : bs.getLast? = some 37 := by simpa using h
  have hne : bs ≠ [] := by
    intro he; simp [he] at hl
  have hidx : bs[bs.length - 1]? = some 37 := by
    rw [← List.getLast?_eq_getElem?]
    exact hl
  simp [hidx, isCont]

/-- **`resolve_minimum_should_match` never panics** — for every spec (any byte string as the
percentage), term count, operator, `f32` parser and percentage arithmetic -/
theorem msm_no_panic {P : Type} (ops : PctOps P) (parse : List Nat → Option P)
    (spec : Option Spec) (n : Nat) (opAnd : Bool) : resolve ops parse spec n opAnd ≠ .panic := by
  unfold resolve
  split
  · simp
  · split
    · simp
    · simp
    · rename_i bs
      split
      · simp
      · rename_i he
        have hb := pct_slice_on_boundary bs (by simpa using he)
        simp only [slicePct, hb, if_true]
        split
        · simp
        · split <;> simp

/-- the required count never exceeds the number of terms -/
theorem msm_le_termCount {P : Type} (ops : PctOps P) (parse : List Nat → Option P)
    (spec : Option Spec) (n : Nat) (opAnd : Bool) (r : Nat)
    (h : resolve ops parse spec n opAnd = .ok (some r)) : r ≤ n := by
  unfold resolve at h
  split at h
  · simp at h
  · rename_i hn
    have hn' : n ≠ 0 := by simpa using hn
    split at h
    · simp only [Res.ok.injEq, Option.some.injEq] at h
      subst h
      split <;> omega
    · simp only [Res.ok.injEq, Option.some.injEq] at h
      subst h
      exact Nat.min_le_right _ _
    · split at h
      · simp at h
      · split at h
        · simp at h
        · split at h
          · simp at h
          · split at h
            · simp only [Res.ok.injEq, Option.some.injEq] at h
              subst h
              exact Nat.min_le_right _ _
            · simp at h

/-- exact decimals: a percentage in range needs at most all terms, `0%` needs none -/
theorem decimal_ceil_le (p : Dec) (n : Nat) (hd : 0 < p.den) (h : decimal.inRange p = true) :
    decimal.ceilOf p n ≤ n := by
  simp only [decimal, decide_eq_true_eq] at h
  simp only [decimal, ceilDiv]
  have hpos : 0 < 100 * p.den := by omega
  have h1 : p.num * n ≤ 100 * p.den * n := Nat.mul_le_mul_right n h
  have h2 : p.num * n + 100 * p.den - 1 < 100 * p.den * n + 100 * p.den := by omega
  have h3 : 100 * p.den * n + 100 * p.den = (n + 1) * (100 * p.den) := by
    rw [Nat.add_mul, Nat.one_mul, Nat.mul_comm]
  have h4 : (p.num * n + 100 * p.den - 1) / (100 * p.den) < n + 1 := by
    rw [Nat.div_lt_iff_lt_mul hpos]
    omega
  omega

/-- non-vacuity: `"50%"` of 3 terms is 2, `"0%"` is 0, `"abc"` and `"101%"` are errors, an
empty query ignores the spec -/
example :
    resolve decimal parseDec (some (.pct [53, 48, 37])) 3 false = .ok (some 2) ∧
    resolve decimal parseDec (some (.pct [48, 37])) 3 false = .ok (some 0) ∧
    resolve decimal parseDec (some (.pct [97, 98, 99])) 3 false = .err ∧
    resolve decimal parseDec (some (.pct [49, 48, 49, 37])) 3 false = .err ∧
    resolve decimal parseDec (some (.pct [97, 98, 99])) 0 false = .ok none ∧
    resolve decimal parseDec (some (.value 7)) 3 true = .ok (some 3) := by
  decide

/-- non-vacuity of the boundary argument: cutting the last byte of `"5é"` would be off a
boundary — but that string does not end with `%` -/
example : isBoundary [53, 195, 169] 2 = false ∧ endsWithPct [53, 195, 169] = false := by decide

end SL.C16
