import SLModel.Core.Integrity
import SLModel.Lemmas.Wal
/-!
# C17 — corrupted index files are detected

Relative to the stated checksum hypotheses (`CrcDetects1` for single-byte changes — a theorem
of CRC-32 that is *assumed* here —, and an explicit no-accidental-match hypothesis on the one
corrupted string for truncations), changing one byte of, or truncating, any checksummed
segment file makes `openSegment` fail; changing a byte inside record `i` of the log (outside
its length prefix) makes replay return exactly the records before `i`; the repaired manifest
load rejects every change of the protected body.  The unchanged manifest load accepts any
change that still parses: `manifest_legacy_unprotected`.
-/
namespace SL.Integrity
open SL.Wal

theorem openSegment_false_of_bad (crc : Bytes → Bytes) (sums : String → Option Bytes)
    (parse : String → Bytes → Bool) (files : List FileView) (f : FileView) (hf : f ∈ files)
    (hbad : match f.content with
      | none => True
      | some b => ∃ c, sums f.name = some c ∧ crc b ≠ c) :
    openSegment crc sums parse files = false := by
  unfold openSegment
  rw [List.all_eq_false]
  refine ⟨f, hf, ?_⟩
  cases hfc : f.content with
  | none => simp
  | some b =>
    rw [hfc] at hbad
    obtain ⟨c, hc, hne⟩ := hbad
    simp [hc, hne]

/-- **single-byte change of a checksummed segment file is detected** -/
theorem segment_flip_detected (crc : Bytes → Bytes) (hd : CrcDetects1 crc)
    (sums : String → Option Bytes) (parse : String → Bytes → Bool)
    (files : List FileView) (name : String) (orig bad : Bytes)
    (hsum : sums name = some (crc orig)) (hdiff : DiffOne orig bad)
    (hf : (⟨name, some bad⟩ : FileView) ∈ files) :
    openSegment crc sums parse files = false :=
  openSegment_false_of_bad crc sums parse files ⟨name, some bad⟩ hf
    ⟨crc orig, hsum, fun h => hd orig bad hdiff h.symm⟩

/-- **truncation (or any other damage) is detected** unless the damaged content happens to have
the same checksum — stated as an explicit hypothesis on that one string -/
theorem segment_damage_detected (crc : Bytes → Bytes)
    (sums : String → Option Bytes) (parse : String → Bytes → Bool)
    (files : List FileView) (name : String) (orig bad : Bytes)
    (hsum : sums name = some (crc orig)) (hno : crc bad ≠ crc orig)
    (hf : (⟨name, some bad⟩ : FileView) ∈ files) :
    openSegment crc sums parse files = false :=
  openSegment_false_of_bad crc sums parse files ⟨name, some bad⟩ hf ⟨crc orig, hsum, hno⟩

/-- a missing file is detected -/
theorem segment_missing_detected (crc : Bytes → Bytes)
    (sums : String → Option Bytes) (parse : String → Bytes → Bool)
    (files : List FileView) (name : String) (hf : (⟨name, none⟩ : FileView) ∈ files) :
    openSegment crc sums parse files = false :=
  openSegment_false_of_bad crc sums parse files ⟨name, none⟩ hf trivial

/-- an intact segment with intact parsers opens -/
theorem segment_intact_opens (crc : Bytes → Bytes) (parse : String → Bytes → Bool)
    (files : List (String × Bytes)) (hparse : ∀ f ∈ files, parse f.1 f.2 = true)
    (sums : String → Option Bytes) (hs : ∀ f ∈ files, sums f.1 = some (crc f.2)) :
    openSegment crc sums parse (files.map fun f => ⟨f.1, some f.2⟩) = true := by
  unfold openSegment
  rw [List.all_eq_true]
  intro v hv
  obtain ⟨f, hf, rfl⟩ := List.mem_map.mp hv
  simp [hs f hf, hparse f hf]

/-! ### write-ahead log -/

/-- a single-byte change of the type, payload or checksum bytes of one framed record makes
`scanOne` reject it (the length prefix `encV len` is untouched) -/
theorem scanOne_flip (crc : Bytes → Bytes) (hc : CrcLen crc) (hd : CrcDetects1 crc)
    (r : Rec) (hr : r.WF) (bad rest : Bytes)
    (hdiff : DiffOne (r.ty :: r.payload ++ crc (r.ty :: r.payload)) bad) :
    scanOne crc (encV r.payload.length ++ bad ++ rest) = none := by
  obtain ⟨pre, x, y, suf, hxy, ha, hb⟩ := hdiff
  have hlen : bad.length = 1 + r.payload.length + 4 := by
    have h1 := congrArg List.length ha
    have h2 := congrArg List.length hb
    simp [hc (r.ty :: r.payload)] at h1
    simp at h2
    omega
  unfold scanOne
  rw [List.append_assoc, decV_encV _ hr]
  simp only [List.drop_left]
  cases hbad : bad with
  | nil => simp [hbad] at hlen
  | cons ty' body' =>
    simp only [List.cons_append]
    have hbl : body'.length = r.payload.length + 4 := by
      rw [hbad] at hlen; simp at hlen; omega
    have hnot : ¬ ((body' ++ rest).length < r.payload.length + 4) := by simp [hbl]
    simp only [hnot, if_false]
    have htake : (body' ++ rest).take r.payload.length = body'.take r.payload.length := by
      rw [List.take_append_of_le_length (by omega)]
    have hdrop : ((body' ++ rest).drop r.payload.length).take 4 = body'.drop r.payload.length := by
      rw [List.drop_append_of_le_length (by omega), List.take_append_of_le_length (by simp [hbl])]
      rw [List.take_of_length_le (by simp [hbl])]
    rw [htake, hdrop]
    -- split the original and the damaged record at the payload/checksum boundary
    have hsplit : bad = (ty' :: body'.take r.payload.length) ++ body'.drop r.payload.length := by
      rw [hbad]; simp [List.take_append_drop]
    -- the damaged position is either inside type+payload or inside the stored checksum
    by_cases hpos : pre.length < 1 + r.payload.length
    · -- inside type+payload: stored checksum unchanged, computed one differs
      have hA : (r.ty :: r.payload) = pre ++ x :: suf.take (r.payload.length - pre.length) := by
        have := congrArg (List.take (1 + r.payload.length)) ha
        rw [show (r.ty :: r.payload ++ crc (r.ty :: r.payload)) = (r.ty :: r.payload) ++ crc (r.ty :: r.payload) by simp,
          List.take_left' (by simp; omega)] at this
        rw [this, List.take_append]
        rw [List.take_of_length_le (l := pre) (by omega)]
        simp only [List.append_cancel_left_eq]
        rw [show 1 + r.payload.length - pre.length = (r.payload.length - pre.length) + 1 by omega]
        rfl
      have hsufEq : suf.drop (r.payload.length - pre.length) = crc (r.ty :: r.payload) := by
        have := congrArg (List.drop (1 + r.payload.length)) ha
        rw [show (r.ty :: r.payload ++ crc (r.ty :: r.payload)) = (r.ty :: r.payload) ++ crc (r.ty :: r.payload) by simp,
          List.drop_left' (by simp; omega)] at this
        rw [this, List.drop_append]
        rw [List.drop_of_length_le (l := pre) (by omega)]
        simp only [List.nil_append]
        rw [show 1 + r.payload.length - pre.length = (r.payload.length - pre.length) + 1 by omega]
        rfl
      have hB1 : ty' :: body'.take r.payload.length = pre ++ y :: suf.take (r.payload.length - pre.length) := by
        have := congrArg (List.take (1 + r.payload.length)) (hbad ▸ hb)
        rw [show 1 + r.payload.length = r.payload.length + 1 by omega, List.take_succ_cons] at this
        rw [this, List.take_append]
        rw [List.take_of_length_le (l := pre) (by omega)]
        simp only [List.append_cancel_left_eq]
        rw [show r.payload.length + 1 - pre.length = (r.payload.length - pre.length) + 1 by omega]
        rfl
      have hB2 : body'.drop r.payload.length = suf.drop (r.payload.length - pre.length) := by
        have := congrArg (List.drop (1 + r.payload.length)) (hbad ▸ hb)
        rw [show 1 + r.payload.length = r.payload.length + 1 by omega, List.drop_succ_cons] at this
        rw [this, List.drop_append]
        rw [List.drop_of_length_le (l := pre) (by omega)]
        simp only [List.nil_append]
        rw [show r.payload.length + 1 - pre.length = (r.payload.length - pre.length) + 1 by omega]
        rfl
      have hne : crc (ty' :: body'.take r.payload.length) ≠ body'.drop r.payload.length := by
        rw [hB2, hsufEq, hB1]
        intro h
        exact hd _ _ ⟨pre, x, y, _, hxy, hA, rfl⟩ h.symm
      simp [hne]
    · -- inside the stored checksum: type+payload unchanged, stored checksum differs
      have hge : 1 + r.payload.length ≤ pre.length := Nat.le_of_not_lt hpos
      have hA : pre.take (1 + r.payload.length) = r.ty :: r.payload := by
        have := congrArg (List.take (1 + r.payload.length)) ha
        rw [show (r.ty :: r.payload ++ crc (r.ty :: r.payload)) = (r.ty :: r.payload) ++ crc (r.ty :: r.payload) by simp,
          List.take_left' (by simp; omega)] at this
        rw [this, List.take_append_of_le_length hge]
      have hB1 : ty' :: body'.take r.payload.length = r.ty :: r.payload := by
        have := congrArg (List.take (1 + r.payload.length)) (hbad ▸ hb)
        rw [show 1 + r.payload.length = r.payload.length + 1 by omega, List.take_succ_cons] at this
        rw [this, List.take_append_of_le_length (by omega), ← hA]
        congr 1; omega
      have hsum : crc (r.ty :: r.payload) = pre.drop (1 + r.payload.length) ++ x :: suf := by
        have := congrArg (List.drop (1 + r.payload.length)) ha
        rw [show (r.ty :: r.payload ++ crc (r.ty :: r.payload)) = (r.ty :: r.payload) ++ crc (r.ty :: r.payload) by simp,
          List.drop_left' (by simp; omega)] at this
        rw [this, List.drop_append_of_le_length hge]
      have hB2 : body'.drop r.payload.length = pre.drop (1 + r.payload.length) ++ y :: suf := by
        have := congrArg (List.drop (1 + r.payload.length)) (hbad ▸ hb)
        rw [show 1 + r.payload.length = r.payload.length + 1 by omega, List.drop_succ_cons] at this
        rw [this, List.drop_append_of_le_length (by omega)]
        congr 2; omega
      have hne : crc (ty' :: body'.take r.payload.length) ≠ body'.drop r.payload.length := by
        rw [hB1, hB2, hsum]
        intro h
        have := List.append_cancel_left h
        simp at this
        exact hxy this
      simp [hne]

/-- **a damaged record cuts the log there**: replay returns exactly the records before it -/
theorem wal_flip_prefix (crc : Bytes → Bytes) (hc : CrcLen crc) (hd : CrcDetects1 crc)
    (before : List Rec) (hwf : ∀ r ∈ before, r.WF) (r : Rec) (hr : r.WF) (bad rest : Bytes)
    (hdiff : DiffOne (r.ty :: r.payload ++ crc (r.ty :: r.payload)) bad) :
    replay crc (frameAll crc before ++ (encV r.payload.length ++ bad ++ rest))
      = (before, (frameAll crc before).length) := by
  unfold replay
  have hge := frameAll_length_ge crc before
  generalize hdata : encV r.payload.length ++ bad ++ rest = tail
  rw [scan_fuel crc _ (before.length + ((frameAll crc before ++ tail).length + 1)) _
    (Nat.le_refl _) (by omega)]
  rw [scan_append crc hc before hwf]
  have : scan crc ((frameAll crc before ++ tail).length + 1) tail = ([], 0) := by
    apply scan_succ_none
    rw [← hdata]
    exact scanOne_flip crc hc hd r hr bad rest hdiff
  rw [this]; simp

/-! ### manifest -/

/-- repaired load: a manifest whose protected body was changed (and whose checksum member is
still there) is rejected, unless the changed body has the same checksum -/
theorem manifest_change_detected (crc : Bytes → Bytes) (body' sum' : Bytes)
    (hno : crc body' ≠ sum') :
    manifestLoad crc (some ⟨body', some sum'⟩) = none := by
  simp [manifestLoad, hno]

/-- with `CrcDetects1`: a single-byte change inside the protected body is rejected -/
theorem manifest_flip_detected (crc : Bytes → Bytes) (hd : CrcDetects1 crc) (body body' : Bytes)
    (hdiff : DiffOne body body') :
    manifestLoad crc (some ⟨body', some (crc body)⟩) = none := by
  apply manifest_change_detected crc
  exact fun h => hd body body' hdiff h.symm

/-- the intact manifest loads, with or without the checksum member -/
theorem manifest_intact_loads (crc : Bytes → Bytes) (body : Bytes) :
    manifestLoad crc (some ⟨body, some (crc body)⟩) = some body ∧
    manifestLoad crc (some ⟨body, none⟩) = some body := by
  simp [manifestLoad]

/-- negative witness for the unchanged code: any parsable change of the manifest is accepted -/
theorem manifest_legacy_unprotected :
    manifestLoadLegacy (some ⟨[1, 2, 9], some [7]⟩) = some [1, 2, 9] ∧
    manifestLoad (fun _ => [7]) (some ⟨[1, 2, 9], some [8]⟩) = none := by
  decide

/-! ### non-vacuity: a checksum satisfying both hypotheses -/

/-- "sum of all bytes" (unbounded `Nat`), padded to four bytes: detects every single change -/
def sumCrc (b : Bytes) : Bytes := [b.sum, 0, 0, 0]

example : CrcLen sumCrc := fun _ => rfl
example : CrcDetects1 sumCrc := by
  intro a b ⟨pre, x, y, suf, hxy, ha, hb⟩ h
  subst ha hb
  simp [sumCrc] at h
  omega
example : DiffOne [1, 2, 3] [1, 7, 3] := ⟨[1], 2, 7, [3], by decide, rfl, rfl⟩

end SL.Integrity
