import SLModel.Lemmas.Post
/-!
# C18 — collapse returns the best hit of each group

`SL.Post.collapse lt ilt cfg same hits` is the model of `collapse_hits`: `lt` the request sort's
key order, `ilt` the inner sort's, `cfg` = `inner_hits` (from, size), `same` = "the two plans have
the same hash".  The theorems hold for **every** hit list, every comparator that is a strict
order (`klt_strictOrd`: the real key comparator is one for every plan) and every from/size.

Tie to the code: `Drv/C18` runs `SL.Post.search` (which calls this `collapse`) on the hits taken
from the real index and the harness compares it with the real response; the statement's
predicates are evaluated on the real response against the uncollapsed full ranking.

What the code does *before* `collapse_hits` matters too: only `max(limit, candidate_size, window_size) + 1`
hits are fetched (`SL.Post.fetch`), so the "group" the code sees is the group among the fetched
hits.  `inner_beyond_fetched_witness` and `rep_beyond_fetched_witness` are the negative
witnesses for the statement read over all matching documents.
-/
namespace SL.Post
variable {S : Type}

/-- at most one hit per collapse value: the values of the representatives are the distinct
values of the input, each exactly once, in order of first occurrence -/
theorem collapse_distinct_keys (lt ilt : Hit S → Hit S → Bool) (cfg : Option InnerCfg) (same : Bool)
    (hits : List (Hit S)) :
    ((collapse lt ilt cfg same hits).map (fun p => p.1.grp)).Nodup ∧
    (collapse lt ilt cfg same hits).map (fun p => p.1.grp) = (dedup (hits.filterMap (·.grp))).map some := by
  refine ⟨?_, collapse_keys lt ilt cfg same hits⟩
  rw [collapse_keys]
  have := dedup_nodup (hits.filterMap (·.grp))
  unfold List.Nodup at this ⊢
  rw [List.pairwise_map]
  exact this.imp (fun h e => h (Option.some.inj e))

/-- hits without a collapse value are not returned; every returned hit is an input hit -/
theorem collapse_rep_mem (lt ilt : Hit S → Hit S → Bool) (cfg : Option InnerCfg) (same : Bool)
    {hits : List (Hit S)} {rep : Hit S} {inner : List (Hit S)}
    (h : (rep, inner) ∈ collapse lt ilt cfg same hits) : rep ∈ hits ∧ ∃ g, rep.grp = some g := by
  obtain ⟨g, _, hg⟩ := mem_collapse lt ilt cfg same h
  have := grpRep_grp lt ilt cfg same hg
  exact ⟨this.1, g, this.2⟩

/-- the representative is the comparator-least hit of its group: no member of the group among
the input hits is ranked strictly before it -/
theorem collapse_rep_is_min {lt : Hit S → Hit S → Bool} (hso : StrictOrd lt) (ilt : Hit S → Hit S → Bool)
    (cfg : Option InnerCfg) (same : Bool) {hits : List (Hit S)} {rep : Hit S} {inner : List (Hit S)}
    (h : (rep, inner) ∈ collapse lt ilt cfg same hits) :
    ∀ x ∈ hits, x.grp = rep.grp → lt x rep = false := by
  obtain ⟨g, _, hg⟩ := mem_collapse lt ilt cfg same h
  obtain ⟨rest, hs, _⟩ := grpRep_some lt ilt cfg same hg
  have hgr := (grpRep_grp lt ilt cfg same hg).2
  have hsorted := isort_sorted hso (members g hits)
  rw [hs] at hsorted
  intro x hx hxg
  have hxm : x ∈ isort lt (members g hits) :=
    mem_isort.mpr (mem_members.mpr ⟨hx, by rw [hxg]; exact hgr⟩)
  rw [hs] at hxm
  rcases List.mem_cons.mp hxm with rfl | hxr
  · exact hso.irrefl _
  · exact (List.pairwise_cons.mp hsorted).1 x hxr

/-- groups appear in the order of their representatives: on a ranked (sorted) hit list the
representatives are the first members of their groups and come out sorted -/
theorem collapse_group_order {lt : Hit S → Hit S → Bool} (ilt : Hit S → Hit S → Bool)
    (cfg : Option InnerCfg) (same : Bool) {hits : List (Hit S)}
    (hs : Sorted lt hits) (ht : TotalOn lt hits) :
    Sorted lt ((collapse lt ilt cfg same hits).map (·.1)) ∧
    (collapse lt ilt cfg same hits).map (·.1) = repsOf hits := by
  have e := collapse_reps_eq lt ilt cfg same hs ht
  exact ⟨by rw [e]; exact repsOf_sorted lt hs, e⟩

/-- inner hits: a window (`drop from ∘ take size`) of the *other* members of the group, sorted
by the inner sort -/
theorem inner_subset_sorted_windowed {lt ilt : Hit S → Hit S → Bool} (hso : StrictOrd lt)
    (hsi : StrictOrd ilt) (c : InnerCfg) (same : Bool) (hsame : same = true → ilt = lt)
    {hits : List (Hit S)} {rep : Hit S} {inner : List (Hit S)}
    (h : (rep, inner) ∈ collapse lt ilt (some c) same hits) :
    ∃ g L, rep.grp = some g ∧ (rep :: L).Perm (members g hits) ∧ Sorted ilt L ∧
      inner = window c L := by
  obtain ⟨g, _, hg⟩ := mem_collapse lt ilt (some c) same h
  obtain ⟨rest, hs, hin⟩ := grpRep_some lt ilt (some c) same hg
  have hgr := (grpRep_grp lt ilt (some c) same hg).2
  have hperm : (rep :: rest).Perm (members g hits) := by
    have := isort_perm_self (lt := lt) (members g hits)
    rw [hs] at this; exact this
  have hsorted : Sorted lt (rep :: rest) := by
    have := isort_sorted hso (members g hits)
    rw [hs] at this; exact this
  cases hsm : same with
  | true =>
    refine ⟨g, rest, hgr, hperm, ?_, ?_⟩
    · rw [hsame hsm]; exact (List.pairwise_cons.mp hsorted).2
    · simp only at hin
      rw [hin]
      cases hsz : c.size <;> simp [innerOf, window, hsz, hsm]
  | false =>
    refine ⟨g, isort ilt rest, hgr, ?_, isort_sorted hsi rest, ?_⟩
    · exact (List.Perm.cons rep (isort_perm_self rest)).trans hperm
    · simp only at hin
      rw [hin]
      cases hsz : c.size <;> simp [innerOf, window, hsz, hsm]

/-- consequences in the statement's words: every inner hit is another input hit of the same
group, and the inner hits are in inner-sort order -/
theorem inner_hits_other_members {lt ilt : Hit S → Hit S → Bool} (hso : StrictOrd lt)
    (hsi : StrictOrd ilt) (c : InnerCfg) (same : Bool) (hsame : same = true → ilt = lt)
    {hits : List (Hit S)} (hnd : hits.Nodup) {rep : Hit S} {inner : List (Hit S)}
    (h : (rep, inner) ∈ collapse lt ilt (some c) same hits) :
    (∀ x ∈ inner, x ∈ hits ∧ x.grp = rep.grp ∧ x ≠ rep) ∧ Sorted ilt inner := by
  obtain ⟨g, L, hgr, hperm, hsorted, hin⟩ := inner_subset_sorted_windowed hso hsi c same hsame h
  have hsub : inner.Sublist L := by rw [hin]; exact window_sublist c L
  refine ⟨?_, hsorted.sublist hsub⟩
  intro x hx
  have hxL : x ∈ L := hsub.subset hx
  have hxm : x ∈ members g hits := hperm.mem_iff.mp (by simp [hxL])
  have hnd' : (rep :: L).Nodup := hperm.nodup_iff.mpr (hnd.filter _)
  refine ⟨(mem_members.mp hxm).1, by rw [hgr]; exact (mem_members.mp hxm).2, ?_⟩
  rintro rfl
  exact (List.nodup_cons.mp hnd').1 hxL

/-- without `inner_hits` in the request nothing is attached -/
theorem no_inner_without_request (lt ilt : Hit S → Hit S → Bool) (same : Bool)
    {hits : List (Hit S)} {rep : Hit S} {inner : List (Hit S)}
    (h : (rep, inner) ∈ collapse lt ilt none same hits) : inner = [] := by
  obtain ⟨g, _, hg⟩ := mem_collapse lt ilt none same h
  obtain ⟨rest, _, hin⟩ := grpRep_some lt ilt none same hg
  simpa [innerOf] using hin

/-! ### with the real comparator -/

/-- the hypotheses of the theorems above hold for the code's key comparator on any hit list
with pairwise distinct `(segment, document)`, for every sort plan -/
theorem klt_hypotheses {o : ScoreOps S} (ho : LawfulOps o) (p : Plan) {hits : List (Hit S)}
    (hn : (hits.map Hit.id).Nodup) :
    StrictOrd (klt o p) ∧ TotalOn (klt o p) hits ∧ Sorted (klt o p) (isort (klt o p) hits) :=
  ⟨klt_strictOrd ho p, klt_totalOn ho p hn, isort_sorted (klt_strictOrd ho p) hits⟩

/-! ### the whole request -/

/-- when the fetch depth covers every match (and the sort is not the per-segment fast path), what
reaches post-processing is the full ranking: the code's hits, groups,
inner hits, `total_groups` and cursor are the statement's -/
theorem mech_eq_spec_all_fetched_partial (o : ScoreOps S) (r : Req S) (matched : List (Hit S))
    (hnf : isFast r.plan = false) (hresc : r.rescore = none)
    (hall : (afterCursor (klt o r.plan) r.cursor matched).length ≤ topKOf r) :
    (search o r matched).hits = (Spec.search o r matched).hits ∧
    (search o r matched).totalGroups = (Spec.search o r matched).totalGroups ∧
    (search o r matched).next = (Spec.search o r matched).next ∧
    (search o r matched).total = (Spec.search o r matched).total := by
  have hseen : matched.map (seen o r) = matched := map_seen o r matched
  have hfetch : fetch (klt o r.plan) false r.explain (topKOf r) r.nseg
      (afterCursor (klt o r.plan) r.cursor matched) =
      isort (klt o r.plan) (afterCursor (klt o r.plan) r.cursor matched) := by
    unfold fetch topK
    simp only [Bool.false_eq_true, if_false]
    split
    · rfl
    · exact List.take_of_length_le (by rw [length_isort]; exact hall)
  unfold search Spec.search
  simp only [hseen, hnf, hfetch]
  have hpost : ∀ X, post o r (rescore o) X = post o r (rescoreSpec o) X := by
    intro X
    unfold post rescored
    rw [hresc]
  rw [hpost]
  simp

/-! ### non-vacuity and negative witnesses (integer scores) -/

private def mk (doc : Nat) (score : Int) (n : Option Int) (g : Option Nat) (seg : Nat := 0) : Hit Int :=
  { seg := seg, doc := doc, score := score, flds := [n], grp := g, resc := .noMatch, expl := none }

private def byScore : Plan := [⟨.score, true⟩]
private def byN : Plan := [⟨.fld 0, false⟩]

/-- three groups, inner hits sorted by the field ascending, window from 0 size 1 -/
example :
    collapse (klt intOps byScore) (klt intOps byN) (some ⟨0, some 1⟩) false
      (isort (klt intOps byScore)
        [mk 0 5 (some 3) (some 7), mk 1 9 (some 1) (some 8), mk 2 4 (some 2) (some 7),
         mk 3 1 (some 0) (some 7), mk 4 2 none none])
    = [(mk 1 9 (some 1) (some 8), []),
       (mk 0 5 (some 3) (some 7), [mk 3 1 (some 0) (some 7)])] := by decide

example : StrictOrd (klt intOps byScore) := klt_strictOrd intOps_lawful _

private def baseReq : Req Int where
  plan := byScore
  limit := 1
  cand := none
  returnHits := true
  explain := false
  profile := false
  hook := false
  nseg := 1
  cursor := none
  rescore := none
  collapse := none
  aggField := 0

private def matchedInner : List (Hit Int) :=
  [mk 0 9 none (some 1), mk 1 8 none (some 1), mk 2 7 none (some 1), mk 3 6 none (some 1)]
private def reqInner : Req Int := { baseReq with collapse := some ⟨some (byScore, ⟨0, some 3⟩)⟩ }

private def matchedRep : List (Hit Int) :=
  [mk 0 10 none (some 1), mk 1 9 none (some 1), mk 2 8 none (some 1), mk 3 7 none (some 3),
   mk 4 1 none (some 3) (seg := 1)]
private def reqRep : Req Int := { baseReq with limit := 2, nseg := 2, collapse := some ⟨none⟩ }

/-- non-vacuity of `mech_eq_spec_all_fetched_partial`: sort by the field then `_score`, limit 5
covers the four matches -/
example :
    let r := { reqInner with plan := [⟨.fld 0, false⟩, ⟨.score, true⟩], limit := 5 }
    (search intOps r matchedInner).hits = (Spec.search intOps r matchedInner).hits :=
  (mech_eq_spec_all_fetched_partial intOps _ matchedInner (by decide) rfl (by decide)).1

/-- **legacy negative witness** (before /repo 8218789): main sort by a field, inner hits sorted
by `_score`: scores were never computed, so the inner hits came in document order (docs 1, 2, 3)
instead of score order -/
theorem legacy_inner_score_sort_witness :
    let r := { reqInner with plan := byN, limit := 5, collapse := some ⟨some (byScore, ⟨0, none⟩)⟩ }
    let m := [mk 0 1 (some 0) (some 1), mk 1 2 (some 1) (some 1), mk 2 9 (some 2) (some 1), mk 3 5 (some 3) (some 1)]
    ((legacyScoreSearch intOps r m).hits.map fun p => p.2.map (·.doc)) = [[1, 2, 3]] ∧
    ((search intOps r m).hits.map fun p => p.2.map (·.doc)) = [[2, 3, 1]] ∧
    ((Spec.search intOps r m).hits.map fun p => p.2.map (·.doc)) = [[2, 3, 1]] := by decide

/-- **negative witness** (statement over all matching documents vs the code): limit 1 fetches
2 hits; the group of the top hit has three more members, `inner_hits.size = 3` returns one -/
theorem inner_beyond_fetched_witness :
    ((search intOps reqInner matchedInner).hits.map fun p => p.2.length) = [1] ∧
    ((Spec.search intOps reqInner matchedInner).hits.map fun p => p.2.length) = [3] := by decide

/-- **negative witness**: on the score fast path every segment ranks its own `limit+1` best, so
with two segments a group's best document (segment 0, rank 4 there) can be missing while a worse
member from segment 1 is fetched and becomes the representative -/
theorem rep_beyond_fetched_witness :
    ((search intOps reqRep matchedRep).hits.map fun p => p.1.doc) = [0, 4] ∧
    ((Spec.search intOps reqRep matchedRep).hits.map fun p => p.1.doc) = [0, 3] := by decide

end SL.Post
