import SLModel.Lemmas.Post
/-!
# C19 — rescoring only affects the rescore window

`SL.Post.rescore o lt mode explain w hits` is the model of `rescore_hits` (`lt` = key order of
the request sort, `hits` = the ranked hits that reached it, each carrying the outcome of the
rescore query on it: `noMatch` / `rejected` (score tree returned `None`, i.e. `min_score`) /
`val r`).  `rescoreSpec` is the statement's reading: window rescored, rejects dropped, window
sorted, the rest appended untouched.

Proved for every hit list, window, mode, comparator (strict order):
* `rescore_eq_rescoreSpec` — **the code's rescoring step is the statement's** (full statement since
  /repo 87dca91: the leading `window − |removed|` hits are sorted, i.e. exactly the surviving
  window hits);
* `rescore_outside_unchanged` — the hits behind the original window follow the surviving window
  hits: same hits, same scores, same order, behind every window hit;
* `rescore_scores` — every output hit is either an untouched hit from behind the window or comes
  from a window hit by the documented combination (`combine`), unmatched hits keeping their score;
* `rescore_min_score_drops` — exactly the rejected window hits disappear;
* `rescore_window_sorted` — the surviving window hits come first, in key order;
* `mech_rescore_eq_spec_partial` — for the whole request (`search` vs `Spec.search`): same page,
  cursor and total when no window hit is rejected (sort not the per-segment fast path, `explain`
  off, no collapse, `window_size ≤ MAX_CANDIDATE_SIZE`).  The remaining hypothesis excludes the
  one open defect: `min_score` removals are not refilled from beyond the fetched hits
  (`page_short_after_drops_witness`).

Repaired defects, kept as kernel-checked documentation: `legacyRescore` (before 87dca91) equals
the statement only without rejections (`legacy_rescore_eq_spec_partial`,
`legacy_rescore_slide_witness`, next to `rescore_slide_repaired`); `legacySearch` (fetch depth
before 089be57): `legacy_window_beyond_fetched_witness` next to `window_fetched_repaired`.
-/
namespace SL.Post
variable {S : Type}

/-! ### list helpers -/

theorem length_filterMap_of_isSome {α β : Type} {f : α → Option β} {l : List α}
    (h : ∀ x ∈ l, (f x).isSome = true) : (l.filterMap f).length = l.length := by
  induction l with
  | nil => rfl
  | cons x xs ih =>
    have hx := h x (by simp)
    obtain ⟨y, hy⟩ := Option.isSome_iff_exists.mp hx
    simp [List.filterMap_cons, hy, ih (fun z hz => h z (by simp [hz]))]

/-- a prefix `a` standing in for the first `w` elements -/
theorem take_drop_of_length {α : Type} (a hits : List α) (w : Nat)
    (ha : a.length = (hits.take w).length) :
    (a ++ hits.drop w).take w = a ∧ (a ++ hits.drop w).drop w = hits.drop w := by
  rw [List.length_take] at ha
  rcases Nat.le_total w hits.length with hw | hw
  · have : a.length = w := by omega
    exact ⟨List.take_left' this, List.drop_left' this⟩
  · have hnil : hits.drop w = [] := List.drop_eq_nil_of_le hw
    have : a.length ≤ w := by omega
    rw [hnil, List.append_nil]
    exact ⟨List.take_of_length_le this, List.drop_eq_nil_of_le this⟩

theorem take_disjoint_drop {α : Type} {l : List α} (hn : l.Nodup) (w : Nat) {x : α}
    (h1 : x ∈ l.take w) (h2 : x ∈ l.drop w) : False := by
  have := hn
  rw [← List.take_append_drop w l, List.nodup_append] at this
  exact this.2.2 x h1 x h2 rfl

/-! ### the rescoring step -/

/-- the hits kept after rescoring the window, before the final sort -/
def keptOf (o : ScoreOps S) (mode : Mode) (explain : Bool) (w : Nat) (hits : List (Hit S)) : List (Hit S) :=
  (hits.take w).filterMap (applyResc o mode explain) ++ hits.drop w

/-- the code's rescoring step is the statement's (`Lemmas/Post.rescore_eq_spec`), written with
`keptOf`: the surviving window hits sorted, then the rest -/
theorem rescore_eq (o : ScoreOps S) (lt : Hit S → Hit S → Bool) (mode : Mode) (explain : Bool) (w : Nat)
    (hits : List (Hit S)) :
    rescore o lt mode explain w hits =
      isort lt ((hits.take w).filterMap (applyResc o mode explain)) ++ hits.drop w := by
  rw [rescore_eq_spec]; rfl

/-- what `applyResc` does to one hit -/
theorem applyResc_spec (o : ScoreOps S) (mode : Mode) (explain : Bool) {h h' : Hit S}
    (e : applyResc o mode explain h = some h') :
    h.resc ≠ .rejected ∧ h'.id = h.id ∧ h'.grp = h.grp ∧ h'.flds = h.flds ∧ h'.resc = h.resc ∧
    ((h.resc = .noMatch ∧ h' = h) ∨ (∃ r, h.resc = .val r ∧ h'.score = combine o mode h.score r)) := by
  unfold applyResc at e
  split at e
  · rename_i hr
    cases e
    simp [hr]
  · cases e
  · rename_i r hr
    cases e
    refine ⟨by simp [hr], rfl, rfl, rfl, rfl, Or.inr ⟨r, hr, rfl⟩⟩

theorem applyResc_none (o : ScoreOps S) (mode : Mode) (explain : Bool) {h : Hit S} :
    applyResc o mode explain h = none ↔ h.resc = .rejected := by
  unfold applyResc
  split <;> simp_all

theorem rescore_perm (o : ScoreOps S) (lt : Hit S → Hit S → Bool) (mode : Mode) (explain : Bool) (w : Nat)
    (hits : List (Hit S)) :
    (rescore o lt mode explain w hits).Perm (keptOf o mode explain w hits) := by
  rw [rescore_eq]
  exact (isort_perm_self _).append_right _

/-- **scores**: every output hit is an untouched hit from behind the window, or comes from a
window hit: unchanged if the rescore query does not match it, otherwise with the combined score
`combine mode original rescore` (`total`/`sum`: `+`, `multiply`: `*`, `max`, `min`) -/
theorem rescore_scores (o : ScoreOps S) (lt : Hit S → Hit S → Bool) (mode : Mode) (explain : Bool) (w : Nat)
    (hits : List (Hit S)) :
    ∀ h' ∈ rescore o lt mode explain w hits,
      h' ∈ hits.drop w ∨
      ∃ h ∈ hits.take w, h'.id = h.id ∧ h.resc ≠ .rejected ∧
        ((h.resc = .noMatch ∧ h' = h) ∨ (∃ r, h.resc = .val r ∧ h'.score = combine o mode h.score r)) := by
  intro h' hh'
  have := (rescore_perm o lt mode explain w hits).mem_iff.mp hh'
  unfold keptOf at this
  rcases List.mem_append.mp this with hw | ht
  · obtain ⟨h, hh, e⟩ := List.mem_filterMap.mp hw
    obtain ⟨h1, h2, _, _, _, h6⟩ := applyResc_spec o mode explain e
    exact Or.inr ⟨h, hh, h2, h1, h6⟩
  · exact Or.inl ht

/-- **min_score**: a window hit the rescore query rejects is not in the output; every other
hit is (window hits possibly with a new score) -/
theorem rescore_min_score_drops (o : ScoreOps S) (lt : Hit S → Hit S → Bool) (mode : Mode) (explain : Bool)
    (w : Nat) (hits : List (Hit S)) (hn : (hits.map Hit.id).Nodup) :
    (∀ h ∈ hits.take w, h.resc = .rejected → h.id ∉ (rescore o lt mode explain w hits).map Hit.id) ∧
    (∀ h ∈ hits.take w, h.resc ≠ .rejected → h.id ∈ (rescore o lt mode explain w hits).map Hit.id) ∧
    (∀ h ∈ hits.drop w, h ∈ rescore o lt mode explain w hits) := by
  have hp := rescore_perm o lt mode explain w hits
  have hnd : hits.Nodup := by
    have := hn
    unfold List.Nodup at this ⊢
    rw [List.pairwise_map] at this
    exact this.imp (fun h e => h (by rw [e]))
  refine ⟨?_, ?_, ?_⟩
  · intro h hh hrej hmem
    obtain ⟨h', hh', hid⟩ := List.mem_map.mp hmem
    have hk := hp.mem_iff.mp hh'
    unfold keptOf at hk
    have hin : h ∈ hits := List.mem_of_mem_take hh
    rcases List.mem_append.mp hk with hw | ht
    · obtain ⟨h2, hh2, e⟩ := List.mem_filterMap.mp hw
      obtain ⟨hnr, hid2, _⟩ := applyResc_spec o mode explain e
      have : h2 = h := nodup_map_inj hn (List.mem_of_mem_take hh2) hin (by rw [← hid2, hid])
      subst this
      exact hnr hrej
    · have : h' = h := nodup_map_inj hn (List.mem_of_mem_drop ht) hin hid
      subst this
      exact take_disjoint_drop hnd w hh ht
  · intro h hh hnr
    cases e : applyResc o mode explain h with
    | none => exact absurd ((applyResc_none o mode explain).mp e) hnr
    | some h' =>
      obtain ⟨_, hid, _⟩ := applyResc_spec o mode explain e
      refine List.mem_map.mpr ⟨h', hp.mem_iff.mpr ?_, hid⟩
      unfold keptOf
      exact List.mem_append.mpr (Or.inl (List.mem_filterMap.mpr ⟨h, hh, e⟩))
  · intro h hh
    refine hp.mem_iff.mpr ?_
    unfold keptOf
    exact List.mem_append.mpr (Or.inr hh)

/-- **window sorted**: the surviving window hits come first and are in key order (by the new
scores, `lt` reads the current score of each hit) -/
theorem rescore_window_sorted {lt : Hit S → Hit S → Bool} (hso : StrictOrd lt) (o : ScoreOps S) (mode : Mode)
    (explain : Bool) (w : Nat) (hits : List (Hit S)) :
    Sorted lt ((rescore o lt mode explain w hits).take
      ((hits.take w).filterMap (applyResc o mode explain)).length) := by
  rw [rescore_eq]
  have hl := length_isort (lt := lt) ((hits.take w).filterMap (applyResc o mode explain))
  rw [List.take_left' hl]
  exact isort_sorted hso _

/-- **outside the window** (spec): behind the surviving window hits the remaining hits follow
with their original scores in their original order -/
theorem rescoreSpec_outside_unchanged {lt : Hit S → Hit S → Bool} (hso : StrictOrd lt) (o : ScoreOps S)
    (mode : Mode) (explain : Bool) (w : Nat) (hits : List (Hit S)) :
    (rescoreSpec o lt mode explain w hits).drop
        ((hits.take w).filterMap (applyResc o mode explain)).length = hits.drop w ∧
    Sorted lt ((rescoreSpec o lt mode explain w hits).take
        ((hits.take w).filterMap (applyResc o mode explain)).length) := by
  unfold rescoreSpec
  have hl := length_isort (lt := lt) ((hits.take w).filterMap (applyResc o mode explain))
  exact ⟨List.drop_left' hl, by rw [List.take_left' hl]; exact isort_sorted hso _⟩

/-- **the code does what the statement says**, for every hit list, window, mode and outcome of
the rescore query (full statement since /repo 87dca91; before, it needed "no window hit is
rejected": `legacy_rescore_eq_spec_partial`, `legacy_rescore_slide_witness`) -/
theorem rescore_eq_rescoreSpec (o : ScoreOps S) (lt : Hit S → Hit S → Bool) (mode : Mode) (explain : Bool)
    (w : Nat) (hits : List (Hit S)) :
    rescore o lt mode explain w hits = rescoreSpec o lt mode explain w hits :=
  rescore_eq_spec o lt mode explain w hits

/-- **outside the window** (code): the output is the surviving window hits followed by exactly
the hits behind the original window — same hits, same scores, same order, and *behind every
window hit* -/
theorem rescore_outside_unchanged (o : ScoreOps S) (lt : Hit S → Hit S → Bool) (mode : Mode)
    (explain : Bool) (w : Nat) (hits : List (Hit S)) :
    (rescore o lt mode explain w hits).drop
        ((hits.take w).filterMap (applyResc o mode explain)).length = hits.drop w ∧
    ((rescore o lt mode explain w hits).take
        ((hits.take w).filterMap (applyResc o mode explain)).length).Perm
      ((hits.take w).filterMap (applyResc o mode explain)) := by
  rw [rescore_eq]
  have hl := length_isort (lt := lt) ((hits.take w).filterMap (applyResc o mode explain))
  exact ⟨List.drop_left' hl, by rw [List.take_left' hl]; exact isort_perm_self _⟩

/-! ### the rescoring step before /repo 87dca91 -/

theorem legacyRescore_eq (o : ScoreOps S) (lt : Hit S → Hit S → Bool) (mode : Mode) (explain : Bool) (w : Nat)
    (hits : List (Hit S)) :
    legacyRescore o lt mode explain w hits =
      isort lt ((keptOf o mode explain w hits).take w) ++ (keptOf o mode explain w hits).drop w := by
  unfold legacyRescore keptOf
  split
  · rename_i h0
    rcases Nat.eq_zero_or_pos w with hw | hw
    · subst hw; simp [isort]
    · have : hits.length = 0 := by omega
      have : hits = [] := List.eq_nil_of_length_eq_zero this
      subst this; simp [isort]
  · rfl

/-- the old code equalled the statement only **when no hit of the window was rejected** -/
theorem legacy_rescore_eq_spec_partial (o : ScoreOps S) (lt : Hit S → Hit S → Bool) (mode : Mode) (explain : Bool)
    (w : Nat) (hits : List (Hit S)) (hnr : ∀ h ∈ hits.take w, h.resc ≠ .rejected) :
    legacyRescore o lt mode explain w hits = rescoreSpec o lt mode explain w hits := by
  rw [legacyRescore_eq]
  unfold rescoreSpec keptOf
  have hl : ((hits.take w).filterMap (applyResc o mode explain)).length = (hits.take w).length := by
    apply length_filterMap_of_isSome
    intro h hh
    cases e : applyResc o mode explain h with
    | none => exact absurd ((applyResc_none o mode explain).mp e) (hnr h hh)
    | some _ => rfl
  obtain ⟨h1, h2⟩ := take_drop_of_length _ hits w hl
  rw [h1, h2]

/-! ### the whole request: fetch depth, window, page -/

theorem take_append_take {α : Type} (A T : List α) (n m : Nat) (h : n ≤ A.length + m) :
    (A ++ T.take m).take n = (A ++ T).take n := by
  rw [List.take_append, List.take_append, List.take_take]
  congr 2
  omega

theorem length_append_take_gt {α : Type} (A T : List α) (n m : Nat) (h : n < A.length + m) :
    (n < (A ++ T.take m).length) ↔ (n < (A ++ T).length) := by
  simp only [List.length_append, List.length_take]
  omega

/-- the code's page equals the statement's page when the sort is not the
score fast path, `explain` is off, nothing is collapsed and no window hit is rejected.  The
former hypothesis "the window fits into the fetched hits" is gone: since /repo 089be57 the fetch
depth is `max(limit, candidate_size, window_size) + 1`, so it follows from the definition for
every `window_size ≤ MAX_CANDIDATE_SIZE`. -/
theorem mech_rescore_eq_spec_partial (o : ScoreOps S) (r : Req S) (matched : List (Hit S))
    (rr : RescoreReq) (hrr : r.rescore = some rr)
    (hnf : isFast r.plan = false) (hne : r.explain = false)
    (hnc : r.collapse = none) (hret : r.returnHits = true) (hlim : r.limit ≤ maxCandidate)
    (hwin : rr.window ≤ maxCandidate)
    (hnr : ∀ h ∈ (isort (klt o r.plan) (afterCursor (klt o r.plan) r.cursor matched)).take rr.window,
      h.resc ≠ .rejected) :
    (search o r matched).hits = (Spec.search o r matched).hits ∧
    (search o r matched).next = (Spec.search o r matched).next ∧
    (search o r matched).total = (Spec.search o r matched).total := by
  have hseen : matched.map (seen o r) = matched := map_seen o r matched
  have hk : r.limit < topKOf r := by
    unfold topKOf
    rw [if_pos hret]
    have : r.limit ≤ min (max (max (r.cand.getD r.limit) r.limit) (windowOf r)) maxCandidate := by
      apply Nat.le_min.mpr
      exact ⟨Nat.le_trans (Nat.le_max_right _ _) (Nat.le_max_left _ _), hlim⟩
    omega
  -- since /repo 089be57 the fetch depth covers the window
  have hw : rr.window ≤ topKOf r := by
    have hwo : windowOf r = rr.window := by unfold windowOf; rw [hrr]
    unfold topKOf
    rw [if_pos hret, hwo]
    have : rr.window ≤ min (max (max (r.cand.getD r.limit) r.limit) rr.window) maxCandidate := by
      apply Nat.le_min.mpr
      exact ⟨Nat.le_max_right _ _, hwin⟩
    exact Nat.le_succ_of_le this
  -- abbreviations
  generalize hL : isort (klt o r.plan) (afterCursor (klt o r.plan) r.cursor matched) = L at hnr
  generalize hK : topKOf r = k at hw hk
  -- the two rescored lists
  have hspec : rescoreSpec o (klt o r.plan) rr.mode false rr.window L =
      isort (klt o r.plan) ((L.take rr.window).filterMap (applyResc o rr.mode false)) ++ L.drop rr.window := rfl
  have htt : (L.take k).take rr.window = L.take rr.window := by
    rw [List.take_take, Nat.min_eq_left hw]
  have hmech : rescore o (klt o r.plan) rr.mode false rr.window (L.take k) =
      isort (klt o r.plan) ((L.take rr.window).filterMap (applyResc o rr.mode false)) ++
        (L.drop rr.window).take (k - rr.window) := by
    rw [rescore_eq_spec]
    unfold rescoreSpec
    rw [htt, List.drop_take]
  generalize hA : isort (klt o r.plan) ((L.take rr.window).filterMap (applyResc o rr.mode false)) = A at hspec hmech
  have hAlen : A.length = (L.take rr.window).length := by
    rw [← hA, length_isort]
    apply length_filterMap_of_isSome
    intro h hh
    cases e : applyResc o rr.mode false h with
    | none => exact absurd ((applyResc_none o rr.mode false).mp e) (hnr h hh)
    | some _ => rfl
  -- the two pages
  have hpage : ∀ f : Hit S → Hit S × List (Hit S),
      ((A ++ (L.drop rr.window).take (k - rr.window)).map f).take r.limit = ((A ++ L.drop rr.window).map f).take r.limit ∧
      (r.limit < ((A ++ (L.drop rr.window).take (k - rr.window)).map f).length ↔
        r.limit < ((A ++ L.drop rr.window).map f).length) := by
    intro f
    rw [List.length_take] at hAlen
    rcases Nat.le_total rr.window L.length with hwl | hwl
    · have hle : r.limit < A.length + (k - rr.window) := by omega
      refine ⟨?_, ?_⟩
      · rw [← List.map_take, ← List.map_take, take_append_take _ _ _ _ (Nat.le_of_lt hle)]
      · rw [List.length_map, List.length_map]
        exact length_append_take_gt _ _ _ _ hle
    · have : L.drop rr.window = [] := List.drop_eq_nil_of_le hwl
      rw [this]
      simp
  unfold search Spec.search
  simp only [hseen, hret, if_true, hnf, hne, fetch, topK, hL, hK, Bool.false_eq_true, if_false]
  unfold post rescored explained grouped page
  simp only [hrr, hne, hnc, hmech, hspec, Bool.false_eq_true, if_false]
  obtain ⟨h1, h2⟩ := hpage (fun h => (h, []))
  refine ⟨h1, ?_, by first | trivial | rfl⟩
  rw [h1]
  by_cases hgt : r.limit < ((A ++ L.drop rr.window).map fun h => (h, ([] : List (Hit S)))).length
  · rw [if_pos (by simpa [GT.gt] using h2.mpr hgt), if_pos (by simpa [GT.gt] using hgt)]
  · rw [if_neg (by simpa [GT.gt] using (fun h => hgt (h2.mp h))), if_neg (by simpa [GT.gt] using hgt)]

/-! ### non-vacuity and negative witnesses (integer scores) -/

private def mk (doc : Nat) (score : Int) (r : Resc Int) : Hit Int :=
  { seg := 0, doc := doc, score := score, flds := [], grp := none, resc := r, expl := none }

private def byScore : Plan := [⟨.score, true⟩]

/-- a window of two is rescored by multiplication and reordered; the third hit is untouched -/
example :
    rescore intOps (klt intOps byScore) .multiply false 2 [mk 0 5 (.val 1), mk 1 4 (.val 3), mk 2 3 (.val 100)]
      = [mk 1 12 (.val 3), mk 0 5 (.val 1), mk 2 3 (.val 100)] := by decide

example : ∀ h ∈ [mk 0 5 (.val 1), mk 1 4 .noMatch].take 2, h.resc ≠ Resc.rejected := by decide

/-- **legacy negative witness** (before /repo 87dca91) for `legacyRescore = rescoreSpec`: window 2,
the second hit is rejected, the first is rescored down to 1; the old code then sorted the first
two of what was left, so the third hit (score 3, never rescored) overtook the rescored one -/
theorem legacy_rescore_slide_witness :
    (legacyRescore intOps (klt intOps byScore) .total false 2
        [mk 0 5 (.val (-4)), mk 1 4 .rejected, mk 2 3 .noMatch, mk 3 2 .noMatch]).map (·.doc) = [2, 0, 3] ∧
    (rescoreSpec intOps (klt intOps byScore) .total false 2
        [mk 0 5 (.val (-4)), mk 1 4 .rejected, mk 2 3 .noMatch, mk 3 2 .noMatch]).map (·.doc) = [0, 2, 3] := by
  decide

/-- the same input on the current model: the never-rescored hits stay behind the window -/
theorem rescore_slide_repaired :
    (rescore intOps (klt intOps byScore) .total false 2
        [mk 0 5 (.val (-4)), mk 1 4 .rejected, mk 2 3 .noMatch, mk 3 2 .noMatch]).map (·.doc) = [0, 2, 3] := by
  decide

private def baseReq : Req Int where
  plan := byScore
  limit := 3
  cand := none
  returnHits := true
  explain := false
  profile := false
  hook := false
  nseg := 1
  cursor := none
  rescore := some ⟨20, .multiply⟩
  collapse := none
  aggField := 0

private def matchedW : List (Hit Int) :=
  [mk 0 10 .noMatch, mk 1 9 .noMatch, mk 2 8 .noMatch, mk 3 7 .noMatch, mk 4 6 (.val 10), mk 5 5 .noMatch]

/-- **legacy negative witness** (fetch depth before /repo 089be57): limit 3, window 20; the hit
at initial rank 5 is boosted ×10 by the rescore query.  The statement's response starts with it;
the old code fetched 4 hits, so it was neither rescored nor returned -/
theorem legacy_window_beyond_fetched_witness :
    ((legacySearch intOps baseReq matchedW).hits.map fun p => (p.1.doc, p.1.score)) = [(0, 10), (1, 9), (2, 8)] ∧
    ((Spec.search intOps baseReq matchedW).hits.map fun p => (p.1.doc, p.1.score)) = [(4, 60), (0, 10), (1, 9)] := by
  decide

/-- the same request on the repaired code: the whole window is fetched and the response is the
statement's -/
theorem window_fetched_repaired :
    ((search intOps baseReq matchedW).hits.map fun p => (p.1.doc, p.1.score)) = [(4, 60), (0, 10), (1, 9)] ∧
    (search intOps baseReq matchedW).next.isSome = (Spec.search intOps baseReq matchedW).next.isSome := by
  decide

/-- non-vacuity of `mech_rescore_eq_spec_partial`: ascending score sort (not the fast path),
window 2 within the 4 fetched hits, nothing rejected -/
example :
    let r := { baseReq with plan := [⟨.score, false⟩], rescore := some ⟨2, .total⟩ }
    (search intOps r matchedW).hits = (Spec.search intOps r matchedW).hits :=
  (mech_rescore_eq_spec_partial intOps _ matchedW ⟨2, .total⟩ rfl (by decide) rfl rfl rfl
    (by decide) (by decide) (by decide)).1

private def matchedD : List (Hit Int) :=
  [mk 0 10 .rejected, mk 1 9 .rejected, mk 2 8 .noMatch, mk 3 7 .noMatch, mk 4 6 .noMatch, mk 5 5 .noMatch]

/-- **negative witness** (removals are not refilled): limit 3, window 3, two of the window
rejected: the code returns 2 hits and no cursor although 4 matching hits remain -/
theorem page_short_after_drops_witness :
    let r := { baseReq with rescore := some ⟨3, .total⟩ }
    ((search intOps r matchedD).hits.map (·.1.doc), (search intOps r matchedD).next.isSome) = ([2, 3], false) ∧
    ((Spec.search intOps r matchedD).hits.map (·.1.doc), (Spec.search intOps r matchedD).next.isSome) = ([2, 3, 4], true) := by
  decide

end SL.Post
