import SLModel.Lemmas.Post
/-!
# C20 — explain and profile do not change results

* `explain_profile_irrelevant` — in the spec (`Spec.search`: post-processing over the full
  ranking) the response without `explanation`/`profile` (`strip`) does not depend on the two
  flags.  The flags reach the pipeline only through the explanation bookkeeping inside
  `rescore`/`setFinal`, and every stage commutes with forgetting explanations
  (`Lemmas/Post`: `isort_strip`, `rescoreSpec_strip`, `collapse_strip`, …).
* `explanation_final_eq_score` — in the mechanism model, with `explain`, every returned hit and
  every inner hit carries an explanation whose final score is the hit's score (the rescore
  part of the explanation — rescore score, combined score — is compared by the differential run).
* `mech_explain_eq_partial` — the *code's* response does not depend on the flags **when the sort
  is the score fast path** (`_score` desc only).  Full statement (not a theorem of the code):
  `∀ r, strip (search o r m) = strip (search o {r with explain := false, profile := false} m)`.
  Negative witnesses: `explain_fetch_depth_witness` (with another sort `explain` makes every
  segment rank all its documents instead of the shared `limit+1` heap: collapse sees more
  groups).
* `mech_explain_eq_plain_partial` — the code's response does not depend on the flags for **any
  sort** when the request has neither rescoring nor collapse.  New with /repo 8218789 / a5f1a65
  (scores are always computed); the old behaviour is documented by
  `legacy_explain_scores_witness` (about `legacyScoreSearch`) next to `explain_scores_repaired`.
-/
namespace SL.Post
variable {S : Type}

/-- the request with both flags off -/
def flagsOff (r : Req S) : Req S := { r with explain := false, profile := false }

/-- the triple `post` returns, without explanations -/
def stripPost (t : List (Hit S × List (Hit S)) × Option Nat × Option (Hit S)) :
    List (Hit S × List (Hit S)) × Option Nat × Option (Hit S) :=
  (t.1.map stripPair, t.2.1, t.2.2.map stripHit)

theorem grouped_strip (o : ScoreOps S) (r : Req S) (l : List (Hit S)) :
    (grouped o r l).map stripPair = grouped o (flagsOff r) (l.map stripHit) := by
  unfold grouped flagsOff
  cases hc : r.collapse with
  | none => simp [stripPair, Function.comp]
  | some c =>
    simp only
    cases hi : c.inner with
    | none => simp only; rw [collapse_strip]
    | some q =>
      obtain ⟨ip, cfg⟩ := q
      simp only; rw [collapse_strip]

theorem page_strip (r : Req S) (gs : List (Hit S × List (Hit S))) :
    stripPost (page r gs) = page (flagsOff r) (gs.map stripPair) := by
  unfold page stripPost flagsOff
  simp only [List.length_map, List.map_take]
  refine Prod.ext rfl (Prod.ext ?_ ?_)
  · rfl
  · simp only
    split
    · rw [← List.map_take, List.getLast?_map]
      cases (gs.take r.limit).getLast? <;> rfl
    · rfl

/-- every stage of `post` commutes with forgetting explanations, provided the rescoring
function does -/
theorem post_strip (o : ScoreOps S) (r : Req S)
    (resc : (Hit S → Hit S → Bool) → Mode → Bool → Nat → List (Hit S) → List (Hit S))
    (hresc : ∀ mode e w l, (resc (klt o r.plan) mode e w l).map stripHit =
      resc (klt o r.plan) mode false w (l.map stripHit))
    (ranked : List (Hit S)) :
    stripPost (post o r resc ranked) = post o (flagsOff r) resc (ranked.map stripHit) := by
  unfold post
  rw [page_strip, grouped_strip]
  congr 2
  -- explanations, then rescoring
  have he : (explained r (rescored o r resc ranked)).map stripHit = (rescored o r resc ranked).map stripHit := by
    unfold explained
    split
    · rw [List.map_map]; rfl
    · rfl
  have he0 : ∀ l : List (Hit S), explained (flagsOff r) l = l := by
    intro l; simp [explained, flagsOff]
  rw [he, he0]
  unfold rescored flagsOff
  cases r.rescore with
  | none => rfl
  | some rr => simp only; exact hresc _ _ _ _

theorem strip_eq (r : Resp S) :
    strip r = { r with hits := r.hits.map stripPair, next := r.next.map stripHit, profile := false } := rfl

/-- **spec**: the response without `explanation` and `profile` does not depend on the flags -/
theorem explain_profile_irrelevant (o : ScoreOps S) (r : Req S) (matched : List (Hit S)) :
    strip (Spec.search o r matched) = strip (Spec.search o (flagsOff r) matched) := by
  have key : ∀ r' : Req S, strip (Spec.search o r' matched) =
      { hits := (if r'.returnHits then post o (flagsOff r') (rescoreSpec o)
            ((isort (klt o r'.plan) (afterCursor (klt o r'.plan) r'.cursor matched)).map stripHit)
          else ([], none, none)).1,
        total := (afterCursor (klt o r'.plan) r'.cursor matched).length + returned r'.cursor,
        totalGroups := (if r'.returnHits then post o (flagsOff r') (rescoreSpec o)
            ((isort (klt o r'.plan) (afterCursor (klt o r'.plan) r'.cursor matched)).map stripHit)
          else ([], none, none)).2.1,
        next := (if r'.returnHits then post o (flagsOff r') (rescoreSpec o)
            ((isort (klt o r'.plan) (afterCursor (klt o r'.plan) r'.cursor matched)).map stripHit)
          else ([], none, none)).2.2,
        aggTerms := aggTerms matched, aggCount := aggCount r'.aggField matched, profile := false } := by
    intro r'
    rw [strip_eq]
    unfold Spec.search
    simp only
    cases hr : r'.returnHits with
    | false => simp
    | true =>
      simp only [if_true]
      have := post_strip o r' (rescoreSpec o) (fun mode e w l => rescoreSpec_strip o r'.plan mode e w l)
        (isort (klt o r'.plan) (afterCursor (klt o r'.plan) r'.cursor matched))
      rw [← this]
      rfl
  rw [key r, key (flagsOff r)]
  rfl

/-! ### explanation bookkeeping -/

/-- the hit carries an explanation whose final score is its score -/
def Explained (h : Hit S) : Prop :=
  ∃ e, h.expl = some e ∧ e.final = h.score

theorem setFinal_explained (h : Hit S) : Explained (setFinal h) := by
  unfold Explained setFinal
  cases h.expl <;> exact ⟨_, rfl, rfl⟩

/-- **mechanism**: with `explain` every returned hit and inner hit is explained with
`final_score = score` -/
theorem explanation_final_eq_score (o : ScoreOps S) (r : Req S) (hex : r.explain = true)
    (matched : List (Hit S)) :
    ∀ p ∈ (search o r matched).hits, Explained p.1 ∧ ∀ i ∈ p.2, Explained i := by
  intro p hp
  unfold search at hp
  simp only at hp
  cases hr : r.returnHits with
  | false => simp [hr] at hp
  | true =>
    simp only [hr, if_true] at hp
    unfold post page at hp
    simp only at hp
    have hp' := List.mem_of_mem_take hp
    generalize rescored o r (rescore o) _ = X at hp'
    have hall : ∀ h ∈ explained r X, Explained h := by
      intro h hh
      unfold explained at hh
      rw [if_pos hex] at hh
      obtain ⟨h0, _, rfl⟩ := List.mem_map.mp hh
      exact setFinal_explained h0
    generalize explained r X = Y at hp' hall
    unfold grouped at hp'
    cases hc : r.collapse with
    | none =>
      rw [hc] at hp'
      obtain ⟨h, hh, rfl⟩ := List.mem_map.mp hp'
      exact ⟨hall h hh, by simp⟩
    | some c =>
      rw [hc] at hp'
      simp only at hp'
      cases hi : c.inner with
      | none =>
        rw [hi] at hp'
        simp only at hp'
        exact ⟨hall _ (grpRep_grp _ _ _ _ (mem_collapse _ _ _ _ hp').choose_spec.2).1,
          fun i hi' => hall i (collapse_inner_mem _ _ _ _ hp' i hi')⟩
      | some q =>
        obtain ⟨ip, cfg⟩ := q
        rw [hi] at hp'
        simp only at hp'
        exact ⟨hall _ (grpRep_grp _ _ _ _ (mem_collapse _ _ _ _ hp').choose_spec.2).1,
          fun i hi' => hall i (collapse_inner_mem _ _ _ _ hp' i hi')⟩

/-! ### the mechanism and the flags -/

theorem usesScore_of_isFast {p : Plan} (h : isFast p = true) : usesScore p = true := by
  unfold isFast at h
  have : p = [⟨.score, true⟩] := by simpa using h
  subst this
  rfl

/-- `…_partial`: the code's response (without `explanation`/`profile`) does not depend on the
flags **on the score fast path** -/
theorem mech_explain_eq_partial (o : ScoreOps S) (r : Req S) (hfast : isFast r.plan = true)
    (matched : List (Hit S)) :
    strip (search o r matched) = strip (search o (flagsOff r) matched) := by
  have hseen : ∀ r' : Req S, r'.plan = r.plan → matched.map (seen o r') = matched :=
    fun r' _ => map_seen o r' matched
  have key : ∀ r' : Req S, r'.plan = r.plan → strip (search o r' matched) =
      { hits := (if r'.returnHits then post o (flagsOff r') (rescore o)
            ((fetch (klt o r.plan) true r'.explain (topKOf r') r'.nseg
              (afterCursor (klt o r.plan) r'.cursor matched)).map stripHit)
          else ([], none, none)).1,
        total := (afterCursor (klt o r.plan) r'.cursor matched).length + returned r'.cursor,
        totalGroups := (if r'.returnHits then post o (flagsOff r') (rescore o)
            ((fetch (klt o r.plan) true r'.explain (topKOf r') r'.nseg
              (afterCursor (klt o r.plan) r'.cursor matched)).map stripHit)
          else ([], none, none)).2.1,
        next := (if r'.returnHits then post o (flagsOff r') (rescore o)
            ((fetch (klt o r.plan) true r'.explain (topKOf r') r'.nseg
              (afterCursor (klt o r.plan) r'.cursor matched)).map stripHit)
          else ([], none, none)).2.2,
        aggTerms := aggTerms matched,
        aggCount := aggCount r'.aggField matched,
        profile := false } := by
    intro r' hp
    rw [strip_eq]
    unfold search
    simp only [hseen r' hp, hp, hfast]
    cases hr : r'.returnHits with
    | false => simp
    | true =>
      simp only [if_true]
      have := post_strip o r' (rescore o)
        (fun mode e w l => by rw [hp]; exact rescore_strip o r.plan mode e w l)
        (fetch (klt o r.plan) true r'.explain (topKOf r') r'.nseg
          (afterCursor (klt o r.plan) r'.cursor matched))
      rw [← this]
      rfl
  rw [key r rfl, key (flagsOff r) rfl]
  rfl


/-! ### requests without rescoring and collapse: the fetch depth does not show -/

theorem page_take (r : Req S) (hnc : r.collapse = none) (gs : List (Hit S × List (Hit S))) (k : Nat)
    (hk : r.limit < k) : page r (gs.take k) = page r gs := by
  unfold page
  have h1 : (gs.take k).take r.limit = gs.take r.limit := by
    rw [List.take_take, Nat.min_eq_left (Nat.le_of_lt hk)]
  have h2 : ((gs.take k).length > r.limit) ↔ (gs.length > r.limit) := by
    simp only [List.length_take, gt_iff_lt]; omega
  rw [h1, hnc]
  simp only [h2]

theorem post_take (o : ScoreOps S) (r : Req S)
    (resc : (Hit S → Hit S → Bool) → Mode → Bool → Nat → List (Hit S) → List (Hit S))
    (hnr : r.rescore = none) (hnc : r.collapse = none) (X : List (Hit S)) (k : Nat) (hk : r.limit < k) :
    post o r resc (X.take k) = post o r resc X := by
  unfold post rescored explained grouped
  rw [hnr, hnc]
  simp only
  have hmap : ∀ Y : List (Hit S),
      (if r.explain = true then (Y.take k).map setFinal else Y.take k).map (fun h => (h, ([] : List (Hit S)))) =
      ((if r.explain = true then Y.map setFinal else Y).map (fun h => (h, ([] : List (Hit S))))).take k := by
    intro Y
    split <;> simp only [List.map_take]
  rw [hmap, page_take r hnc _ k hk]

/-- `…_partial`: without rescoring and collapse the code's response (without
`explanation`/`profile`) does not depend on the flags, whatever the sort.  Before /repo 8218789
and a5f1a65 this needed "scores are computed anyway" as a further hypothesis
(`legacy_explain_scores_witness`); what is still excluded is the interaction of the deeper
fetch under `explain` with rescoring and collapse (`explain_fetch_depth_witness`). -/
theorem mech_explain_eq_plain_partial (o : ScoreOps S) (r : Req S) (hnr : r.rescore = none)
    (hnc : r.collapse = none) (hlim : r.limit ≤ maxCandidate) (matched : List (Hit S)) :
    strip (search o r matched) = strip (search o (flagsOff r) matched) := by
  cases hnf : isFast r.plan with
  | true => exact mech_explain_eq_partial o r hnf matched
  | false =>
    have key : ∀ r' : Req S, r'.plan = r.plan → r'.rescore = none → r'.collapse = none →
        r'.limit ≤ maxCandidate → strip (search o r' matched) =
        { hits := (if r'.returnHits then post o (flagsOff r') (rescore o)
              ((isort (klt o r.plan) (afterCursor (klt o r.plan) r'.cursor matched)).map stripHit)
            else ([], none, none)).1,
          total := (afterCursor (klt o r.plan) r'.cursor matched).length + returned r'.cursor,
          totalGroups := (if r'.returnHits then post o (flagsOff r') (rescore o)
              ((isort (klt o r.plan) (afterCursor (klt o r.plan) r'.cursor matched)).map stripHit)
            else ([], none, none)).2.1,
          next := (if r'.returnHits then post o (flagsOff r') (rescore o)
              ((isort (klt o r.plan) (afterCursor (klt o r.plan) r'.cursor matched)).map stripHit)
            else ([], none, none)).2.2,
          aggTerms := aggTerms matched,
          aggCount := aggCount r'.aggField matched,
          profile := false } := by
      intro r' hp hnr' hnc' hlim'
      rw [strip_eq]
      unfold search
      simp only [map_seen o r' matched, hp, hnf]
      cases hr : r'.returnHits with
      | false => simp
      | true =>
        simp only [if_true]
        -- what reaches post-processing, whichever way it was fetched
        have hfe : post o r' (rescore o) (fetch (klt o r.plan) false r'.explain (topKOf r') r'.nseg
              (afterCursor (klt o r.plan) r'.cursor matched)) =
            post o r' (rescore o) (isort (klt o r.plan) (afterCursor (klt o r.plan) r'.cursor matched)) := by
          unfold fetch topK
          simp only [Bool.false_eq_true, if_false]
          split
          · rfl
          · exact post_take o r' (rescore o) hnr' hnc' _ _ (limit_lt_topKOf r' hr hlim')
        rw [hfe]
        have := post_strip o r' (rescore o)
          (fun mode e w l => by rw [hp]; exact rescore_strip o r.plan mode e w l)
          (isort (klt o r.plan) (afterCursor (klt o r.plan) r'.cursor matched))
        rw [← this]
        rfl
    rw [key r rfl hnr hnc hlim, key (flagsOff r) rfl hnr hnc hlim]
    rfl

/-! ### non-vacuity and negative witnesses (integer scores) -/

private def mk (doc : Nat) (score : Int) (n : Int) (g : Nat) : Hit Int :=
  { seg := 0, doc := doc, score := score, flds := [some n], grp := some g, resc := .noMatch, expl := none }

private def docs : List (Hit Int) := [mk 0 4 0 1, mk 1 3 1 1, mk 2 2 2 2, mk 3 1 3 3]

private def byField : Req Int where
  plan := [⟨.fld 0, false⟩]
  limit := 1
  cand := none
  returnHits := true
  explain := false
  profile := false
  hook := false
  nseg := 1
  cursor := none
  rescore := none
  collapse := some ⟨none⟩
  aggField := 0

example : ∀ p ∈ (search intOps { byField with explain := true } docs).hits,
    p.1.expl = some ⟨none, p.1.score⟩ := by decide

/-- **negative witness** (fetch depth): sort by a field, collapse, limit 1.  Without `explain`
two hits are fetched and collapse into one group: `total_groups = 1`, no cursor.  With `explain`
all four documents are ranked: `total_groups = 3` and a cursor. -/
theorem explain_fetch_depth_witness :
    ((search intOps byField docs).totalGroups, (search intOps byField docs).next.isSome) = (some 1, false) ∧
    ((search intOps { byField with explain := true } docs).totalGroups,
     (search intOps { byField with explain := true } docs).next.isSome) = (some 3, true) := by
  decide

/-- **legacy negative witness** (scores, before /repo 8218789 / a5f1a65): under a sort that
ignores `_score` the returned hit carried score 0 without `explain` and its real score with
`explain` -/
theorem legacy_explain_scores_witness :
    ((legacyScoreSearch intOps { byField with collapse := none } docs).hits.map (·.1.score)) = [0] ∧
    ((legacyScoreSearch intOps { byField with collapse := none, explain := true } docs).hits.map (·.1.score)) = [4] := by
  decide

/-- the same requests on the current model: the score does not depend on the flag (an instance of
`mech_explain_eq_plain_partial`) -/
theorem explain_scores_repaired :
    ((search intOps { byField with collapse := none } docs).hits.map (·.1.score)) = [4] ∧
    ((search intOps { byField with collapse := none, explain := true } docs).hits.map (·.1.score)) = [4] := by
  decide

example : strip (search intOps { byField with collapse := none, explain := true } docs) =
    strip (search intOps (flagsOff { byField with collapse := none, explain := true }) docs) :=
  mech_explain_eq_plain_partial intOps _ rfl rfl (by decide) docs

end SL.Post
