import SLModel.Core.Highlight
/-!
# C21 — highlights are well-formed for any text

Property (properties.jsonl): every highlight fragment and snippet returned for a hit is
non-empty, contains at least one tagged match, becomes a substring of the stored text once the
tags are removed, and is no longer than the requested fragment size; at most
`number_of_fragments` fragments per field — for any text (multi-byte included) whenever the
fragment size is at least twice the length of the matched text.

FULL STATEMENT (false of the unchanged code, see `code_slice_not_wellformed`):

    theorem wellformed (t find rematch size nfrag) (hr : RegexOk sliceCode t size find rematch) :
        (highlightFragments sliceCode t hp find rematch size nfrag).length ≤ nfrag ∧
        ∀ p ∈ highlightFragments sliceCode t hp find rematch size nfrag, WellFormed t size p

What is proved:
* `wellformed_partial`  — the statement above under the extra decidable hypothesis
  `windowOnBoundary` (both window ends are char boundaries) for every match visited —
  exactly the negation of the known finding's signature predicate;
* `ascii_wellformed`    — corollary: ASCII text needs no extra hypothesis;
* `code_slice_not_wellformed` — negative witness (`decide`): `"é a"`, match `a`, size 4;
* `utf8_wellformed`     — the full statement for the boundary-snapping slice `sliceSnap`
  (planned repair), arbitrary bytes, matches on char boundaries;
* `empty_iff_off_boundary` — the finding's signature predicate is exact; `sliceSnap_eq_sliceCode`
  — the repair changes nothing where the code is right;
* `snippet_wellformed…`, `field_highlights…` — the two callers in `materialize_hit`.

The regex engine is a parameter; what the proofs need from it is `RegexOk` (spans in order and
in range; the match is found again inside a fragment that contains it).  The harness evaluates
these hypotheses on the real `regex` results of every generated case.
-/
namespace SL.Highlight

/-! ## statement vocabulary -/

/-- some match is wrapped in tags -/
def HasTagged (p : List Piece) : Prop :=
  ∃ a w b, w ≠ [] ∧ p = a ++ [Piece.pre, Piece.raw w, Piece.post] ++ b

/-- the four per-fragment clauses of the property -/
structure WellFormed (t : Bytes) (size : Nat) (p : List Piece) : Prop where
  nonempty : untag p ≠ []
  tagged : HasTagged p
  substring : untag p <:+: t
  short : (untag p).length ≤ size

/-- what the proofs assume about the regex engine (`find` = `find_at` on the text,
`rematch` = the matches `replace_all` visits in a fragment) for slicing function `slice` -/
structure RegexOk (slice : Bytes → Nat → Nat → Bytes) (t : Bytes) (size : Nat)
    (find : Nat → Option Span) (rematch : Bytes → List Span) : Prop where
  /-- matches are non-empty spans of the text -/
  find_span : ∀ off m, find off = some m → m.1 < m.2 ∧ m.2 ≤ t.length
  /-- premise of the property: fragment size ≥ 2 · |match| -/
  fits : ∀ off m, find off = some m → 2 * (m.2 - m.1) ≤ size
  /-- a regex iterator yields ordered, non-overlapping, non-empty, in-range spans -/
  re_spans : ∀ f, spansOk f.length 0 (rematch f) = true
  /-- the match is found again inside the fragment cut around it -/
  re_finds : ∀ off m, find off = some m → rematch (slice t m.1 size) ≠ []

/-! ## lemmas -/

theorem take_drop_glue {α : Type} (l : List α) (a b : Nat) (h : a ≤ b) :
    (l.drop a).take (b - a) ++ l.drop b = l.drop a := by
  have hb : l.drop b = (l.drop a).drop (b - a) := by
    rw [List.drop_drop]; congr 1; omega
  rw [hb, List.take_append_drop]

/-- removing the tags gives back the fragment (from `last` on) -/
theorem untag_tagGo (frag : Bytes) : ∀ (spans : List Span) (last : Nat),
    spansOk frag.length last spans = true → untag (tagGo frag last spans) = frag.drop last := by
  intro spans
  induction spans with
  | nil => intro last _; simp [tagGo, untag, render]
  | cons se r ih =>
    intro last h
    obtain ⟨s, e⟩ := se
    simp only [spansOk, Bool.and_eq_true, decide_eq_true_eq] at h
    obtain ⟨⟨⟨h1, h2⟩, _h3⟩, h4⟩ := h
    have ih' := ih e h4
    simp only [untag] at ih'
    simp only [tagGo, untag, render, List.nil_append, ih']
    rw [take_drop_glue frag s e (Nat.le_of_lt h2), take_drop_glue frag last s h1]

theorem untag_tagPieces (frag : Bytes) (spans : List Span)
    (h : spansOk frag.length 0 spans = true) : untag (tagPieces frag spans) = frag := by
  simpa [tagPieces] using untag_tagGo frag spans 0 h

/-- a non-empty valid span list produces a tagged, non-empty match -/
theorem hasTagged_tagPieces (frag : Bytes) (spans : List Span)
    (h : spansOk frag.length 0 spans = true) (hne : spans ≠ []) :
    HasTagged (tagPieces frag spans) := by
  cases spans with
  | nil => exact absurd rfl hne
  | cons se r =>
    obtain ⟨s, e⟩ := se
    simp only [spansOk, Bool.and_eq_true, decide_eq_true_eq] at h
    obtain ⟨⟨⟨_, h2⟩, h3⟩, _⟩ := h
    refine ⟨[Piece.raw ((frag.drop 0).take (s - 0))], (frag.drop s).take (e - s), tagGo frag e r, ?_, ?_⟩
    · intro hw
      have hl : ((frag.drop s).take (e - s)).length = 0 := by rw [hw]; rfl
      rw [List.length_take, List.length_drop] at hl
      omega
    · simp [tagPieces, tagGo]

/-- the core: a slice `[s, e)` of the text that is non-empty and at most `size` long, tagged
with a non-empty valid span list, is a well-formed fragment -/
theorem wf_of_slice (t : Bytes) (size s e : Nat) (spans : List Span)
    (hse : s < e) (hel : e ≤ t.length) (hsz : e - s ≤ size)
    (hsp : spansOk ((t.drop s).take (e - s)).length 0 spans = true) (hne : spans ≠ []) :
    WellFormed t size (tagPieces ((t.drop s).take (e - s)) spans) := by
  have hlen : ((t.drop s).take (e - s)).length = e - s := by
    rw [List.length_take, List.length_drop]; omega
  refine ⟨?_, hasTagged_tagPieces _ _ hsp hne, ?_, ?_⟩
  · rw [untag_tagPieces _ _ hsp]
    intro h0
    have : ((t.drop s).take (e - s)).length = 0 := by rw [h0]; rfl
    omega
  · rw [untag_tagPieces _ _ hsp]
    exact (List.take_prefix _ _).isInfix.trans (List.drop_suffix _ _).isInfix
  · rw [untag_tagPieces _ _ hsp, hlen]; exact hsz

/-- arithmetic of the window: it contains the match, stays inside the text, and is at most
`size` wide — provided `size ≥ 2·|match|` -/
theorem window_facts (m1 m2 size len : Nat) (h12 : m1 < m2) (h2l : m2 ≤ len)
    (hfit : 2 * (m2 - m1) ≤ size) :
    (window m1 size len).1 ≤ m1 ∧ m2 ≤ (window m1 size len).2 ∧
    (window m1 size len).2 ≤ len ∧ (window m1 size len).2 - (window m1 size len).1 ≤ size := by
  simp only [window]
  omega

theorem fragsLoop_length (slice : Bytes → Nat → Nat → Bytes) (t : Bytes) (find : Nat → Option Span)
    (rematch : Bytes → List Span) (size : Nat) :
    ∀ k off, (fragsLoop slice t find rematch size k off).length ≤ k := by
  intro k
  induction k with
  | zero => intro off; simp [fragsLoop]
  | succ k ih =>
    intro off
    unfold fragsLoop
    split
    · simp
    · simp only [List.length_cons]
      exact Nat.succ_le_succ (ih _)

theorem fragsLoop_wf (slice : Bytes → Nat → Nat → Bytes) (t : Bytes) (find : Nat → Option Span)
    (rematch : Bytes → List Span) (size : Nat)
    (H : ∀ off m, find off = some m →
      WellFormed t size (tagPieces (slice t m.1 size) (rematch (slice t m.1 size)))) :
    ∀ k off, ∀ p ∈ fragsLoop slice t find rematch size k off, WellFormed t size p := by
  intro k
  induction k with
  | zero => intro off p hp; simp [fragsLoop] at hp
  | succ k ih =>
    intro off p hp
    unfold fragsLoop at hp
    split at hp
    · simp at hp
    · rename_i m hm
      rcases List.mem_cons.mp hp with rfl | hp
      · exact H off m hm
      · exact ih _ p hp

theorem highlightFragments_length (slice : Bytes → Nat → Nat → Bytes) (t : Bytes) (hp : Bool)
    (find : Nat → Option Span) (rematch : Bytes → List Span) (size nfrag : Nat) :
    (highlightFragments slice t hp find rematch size nfrag).length ≤ nfrag := by
  unfold highlightFragments
  split
  · simp
  · exact fragsLoop_length _ _ _ _ _ _ _

/-- the code's slice when both window ends are char boundaries -/
theorem sliceCode_eq (t : Bytes) (m1 size : Nat)
    (hb : windowOnBoundary t m1 size = true)
    (hle : (window m1 size t.length).1 ≤ (window m1 size t.length).2) :
    sliceCode t m1 size =
      (t.drop (window m1 size t.length).1).take
        ((window m1 size t.length).2 - (window m1 size t.length).1) := by
  simp only [windowOnBoundary, Bool.and_eq_true] at hb
  simp [sliceCode, getSlice, hb.1, hb.2, hle]

/-! ## the unchanged code -/

/-- C21 for the unchanged byte slicing, under the hypothesis that excludes the known finding:
every visited window has both ends on char boundaries. -/
theorem wellformed_partial (t : Bytes) (hp : Bool) (find : Nat → Option Span)
    (rematch : Bytes → List Span) (size nfrag : Nat)
    (hr : RegexOk sliceCode t size find rematch)
    (hwin : ∀ off m, find off = some m → windowOnBoundary t m.1 size = true) :
    (highlightFragments sliceCode t hp find rematch size nfrag).length ≤ nfrag ∧
    ∀ p ∈ highlightFragments sliceCode t hp find rematch size nfrag, WellFormed t size p := by
  refine ⟨highlightFragments_length _ _ _ _ _ _ _, ?_⟩
  intro p hmem
  unfold highlightFragments at hmem
  split at hmem
  · simp at hmem
  · refine fragsLoop_wf sliceCode t find rematch size ?_ nfrag 0 p hmem
    intro off m hm
    obtain ⟨h12, h2l⟩ := hr.find_span off m hm
    obtain ⟨w1, w2, w3, w4⟩ := window_facts m.1 m.2 size t.length h12 h2l (hr.fits off m hm)
    have hle : (window m.1 size t.length).1 ≤ (window m.1 size t.length).2 := by omega
    have hs := sliceCode_eq t m.1 size (hwin off m hm) hle
    have hsp := hr.re_spans (sliceCode t m.1 size)
    have hne := hr.re_finds off m hm
    rw [hs] at hsp hne ⊢
    exact wf_of_slice t size _ _ _ (by omega) w3 w4 hsp hne

/-- in ASCII text every index up to the length is a char boundary -/
theorem ascii_boundary (t : Bytes) (hascii : ∀ b ∈ t, b.toNat < 128) (i : Nat)
    (hi : i ≤ t.length) : isBoundary t i = true := by
  unfold isBoundary
  split
  · rfl
  · split
    · rename_i hnone
      have := List.getElem?_eq_none_iff.mp hnone
      simp; omega
    · rename_i b hsome
      have hb := hascii b (List.mem_of_getElem? hsome)
      simp [isCont]; omega

/-- C21 for ASCII text, unchanged code, no extra hypothesis. -/
theorem ascii_wellformed (t : Bytes) (hascii : ∀ b ∈ t, b.toNat < 128) (hp : Bool)
    (find : Nat → Option Span) (rematch : Bytes → List Span) (size nfrag : Nat)
    (hr : RegexOk sliceCode t size find rematch) :
    (highlightFragments sliceCode t hp find rematch size nfrag).length ≤ nfrag ∧
    ∀ p ∈ highlightFragments sliceCode t hp find rematch size nfrag, WellFormed t size p := by
  apply wellformed_partial t hp find rematch size nfrag hr
  intro off m hm
  obtain ⟨h12, h2l⟩ := hr.find_span off m hm
  obtain ⟨_, _, w3, _⟩ := window_facts m.1 m.2 size t.length h12 h2l (hr.fits off m hm)
  have w0 : (window m.1 size t.length).1 ≤ t.length := by simp only [window]; omega
  simp only [windowOnBoundary, Bool.and_eq_true]
  exact ⟨ascii_boundary t hascii _ w0, ascii_boundary t hascii _ w3⟩

/-! ## negative witness for the unchanged code: `"é a"`, query `a`, fragment size 4 -/

def witnessText : Bytes := [0xC3, 0xA9, 0x20, 0x61]
def witnessFind : Nat → Option Span := fun off => if off ≤ 3 then some (3, 4) else none

/-- the window `[1, 4)` starts inside `é`; `get` fails; the fragment is empty although the
match has length 1 and the fragment size is 4 ≥ 2·1. -/
theorem code_slice_not_wellformed :
    witnessFind 0 = some (3, 4) ∧ 2 * (4 - 3) ≤ 4 ∧
    windowOnBoundary witnessText 3 4 = false ∧
    (highlightFragments sliceCode witnessText true witnessFind (fun _ => []) 4 1).map untag
      = [[]] := by
  decide

theorem code_slice_violates :
    ∃ p ∈ highlightFragments sliceCode witnessText true witnessFind (fun _ => []) 4 1,
      ¬ WellFormed witnessText 4 p := by
  refine ⟨[Piece.raw []], by decide, ?_⟩
  intro h
  exact h.nonempty (by decide)

/-- the same input with the boundary-snapping slice: fragment `" a"` with `a` tagged -/
example :
    highlightFragments sliceSnap witnessText true witnessFind
      (fun f => if f = [0x20, 0x61] then [(1, 2)] else []) 4 1
      = [[Piece.raw [0x20], Piece.pre, Piece.raw [0x61], Piece.post, Piece.raw []]] := by
  decide

/-! ## the boundary-snapping slice (planned repair) -/

theorem isBoundary_zero (t : Bytes) : isBoundary t 0 = true := by simp [isBoundary]

theorem snapUp_spec (t : Bytes) : ∀ (f i b : Nat), i ≤ b → b ≤ i + f → isBoundary t b = true →
    isBoundary t (snapUp t f i) = true ∧ i ≤ snapUp t f i ∧ snapUp t f i ≤ b := by
  intro f
  induction f with
  | zero =>
    intro i b h1 h2 hb
    have : b = i := by omega
    subst this
    simp [snapUp, hb]
  | succ f ih =>
    intro i b h1 h2 hb
    unfold snapUp
    split
    · rename_i hi; exact ⟨hi, Nat.le_refl _, h1⟩
    · rename_i hi
      have hne : i ≠ b := by intro h; subst h; exact hi hb
      obtain ⟨r1, r2, r3⟩ := ih (i + 1) b (by omega) (by omega) hb
      exact ⟨r1, by omega, r3⟩

theorem snapDown_spec (t : Bytes) : ∀ (i b : Nat), b ≤ i → isBoundary t b = true →
    isBoundary t (snapDown t i) = true ∧ b ≤ snapDown t i ∧ snapDown t i ≤ i := by
  intro i
  induction i with
  | zero =>
    intro b h1 _
    simp [snapDown, isBoundary_zero]; omega
  | succ i ih =>
    intro b h1 hb
    unfold snapDown
    split
    · rename_i hi; exact ⟨hi, h1, Nat.le_refl _⟩
    · rename_i hi
      have hne : b ≠ i + 1 := by intro h; subst h; exact hi hb
      obtain ⟨r1, r2, r3⟩ := ih b (by omega) hb
      exact ⟨r1, r2, by omega⟩

/-- C21 in full for the boundary-snapping slice: arbitrary bytes, matches on char boundaries
(which the regex crate guarantees on `&str`). -/
theorem utf8_wellformed (t : Bytes) (hp : Bool) (find : Nat → Option Span)
    (rematch : Bytes → List Span) (size nfrag : Nat)
    (hr : RegexOk sliceSnap t size find rematch)
    (hmb : ∀ off m, find off = some m → isBoundary t m.1 = true ∧ isBoundary t m.2 = true) :
    (highlightFragments sliceSnap t hp find rematch size nfrag).length ≤ nfrag ∧
    ∀ p ∈ highlightFragments sliceSnap t hp find rematch size nfrag, WellFormed t size p := by
  refine ⟨highlightFragments_length _ _ _ _ _ _ _, ?_⟩
  intro p hmem
  unfold highlightFragments at hmem
  split at hmem
  · simp at hmem
  · refine fragsLoop_wf sliceSnap t find rematch size ?_ nfrag 0 p hmem
    intro off m hm
    obtain ⟨h12, h2l⟩ := hr.find_span off m hm
    obtain ⟨b1, b2⟩ := hmb off m hm
    obtain ⟨w1, w2, w3, w4⟩ := window_facts m.1 m.2 size t.length h12 h2l (hr.fits off m hm)
    obtain ⟨s1, s2, s3⟩ := snapUp_spec t (t.length - (window m.1 size t.length).1)
      (window m.1 size t.length).1 m.1 w1 (by omega) b1
    obtain ⟨e1, e2, e3⟩ := snapDown_spec t (window m.1 size t.length).2 m.2 w2 b2
    have hs : sliceSnap t m.1 size =
        (t.drop (snapUp t (t.length - (window m.1 size t.length).1) (window m.1 size t.length).1)).take
          (snapDown t (window m.1 size t.length).2 -
            snapUp t (t.length - (window m.1 size t.length).1) (window m.1 size t.length).1) := by
      have hle : snapUp t (t.length - (window m.1 size t.length).1) (window m.1 size t.length).1 ≤
          snapDown t (window m.1 size t.length).2 := by omega
      simp [sliceSnap, getSlice, s1, e1, hle]
    have hsp := hr.re_spans (sliceSnap t m.1 size)
    have hne := hr.re_finds off m hm
    rw [hs] at hsp hne ⊢
    exact wf_of_slice t size _ _ _ (by omega) (by omega) (by omega) hsp hne


/-! ## the finding's signature is exact, and the repair is conservative -/

/-- Under the property's premise the unchanged code returns an empty fragment **iff** a window
end is off a char boundary: the known finding's signature predicate describes exactly the
failing inputs of the slicing step. -/
theorem empty_iff_off_boundary (t : Bytes) (m1 m2 size : Nat) (h12 : m1 < m2)
    (h2l : m2 ≤ t.length) (hfit : 2 * (m2 - m1) ≤ size) :
    sliceCode t m1 size = [] ↔ windowOnBoundary t m1 size = false := by
  obtain ⟨w1, w2, w3, w4⟩ := window_facts m1 m2 size t.length h12 h2l hfit
  have hle : (window m1 size t.length).1 ≤ (window m1 size t.length).2 := by omega
  constructor
  · intro h0
    cases hb : windowOnBoundary t m1 size with
    | false => rfl
    | true =>
      rw [sliceCode_eq t m1 size hb hle] at h0
      have hl : ((t.drop (window m1 size t.length).1).take
          ((window m1 size t.length).2 - (window m1 size t.length).1)).length = 0 := by
        rw [h0]; rfl
      rw [List.length_take, List.length_drop] at hl
      omega
  · intro hb
    simp only [windowOnBoundary, Bool.and_eq_false_iff] at hb
    rcases hb with hb | hb <;> simp [sliceCode, getSlice, hb]

theorem snapUp_of_boundary (t : Bytes) (f i : Nat) (h : isBoundary t i = true) :
    snapUp t f i = i := by
  cases f with
  | zero => rfl
  | succ f => simp [snapUp, h]

theorem snapDown_of_boundary (t : Bytes) (i : Nat) (h : isBoundary t i = true) :
    snapDown t i = i := by
  cases i with
  | zero => rfl
  | succ i => simp [snapDown, h]

/-- where the unchanged code is right (both window ends on boundaries) the boundary-snapping
slice returns the same fragment -/
theorem sliceSnap_eq_sliceCode (t : Bytes) (m1 size : Nat)
    (hb : windowOnBoundary t m1 size = true) : sliceSnap t m1 size = sliceCode t m1 size := by
  have hb' := hb
  simp only [windowOnBoundary, Bool.and_eq_true] at hb'
  simp only [sliceSnap, sliceCode, snapUp_of_boundary t _ _ hb'.1, snapDown_of_boundary t _ hb'.2]

/-! ## the callers in `materialize_hit` -/

/-- legacy snippet (`highlight_field`): if present it is a well-formed fragment of size 120 -/
theorem snippet_wellformed_partial (t : Bytes) (hp : Bool) (find : Nat → Option Span)
    (rematch : Bytes → List Span) (hr : RegexOk sliceCode t 120 find rematch)
    (hwin : ∀ off m, find off = some m → windowOnBoundary t m.1 120 = true)
    (p : List Piece) (h : makeSnippet sliceCode t hp find rematch = some p) :
    WellFormed t 120 p := by
  unfold makeSnippet at h
  exact (wellformed_partial t hp find rematch 120 1 hr hwin).2 p (List.mem_of_getLast? h)

theorem snippet_wellformed_snap (t : Bytes) (hp : Bool) (find : Nat → Option Span)
    (rematch : Bytes → List Span) (hr : RegexOk sliceSnap t 120 find rematch)
    (hmb : ∀ off m, find off = some m → isBoundary t m.1 = true ∧ isBoundary t m.2 = true)
    (p : List Piece) (h : makeSnippet sliceSnap t hp find rematch = some p) :
    WellFormed t 120 p := by
  unfold makeSnippet at h
  exact (utf8_wellformed t hp find rematch 120 1 hr hmb).2 p (List.mem_of_getLast? h)

/-- per-field highlights: present only when non-empty, at most `nfrag`, all well-formed -/
theorem field_highlights_partial (t : Bytes) (hp : Bool) (find : Nat → Option Span)
    (rematch : Bytes → List Span) (size nfrag : Nat)
    (hr : RegexOk sliceCode t size find rematch)
    (hwin : ∀ off m, find off = some m → windowOnBoundary t m.1 size = true)
    (frs : List (List Piece))
    (h : fieldHighlights sliceCode t hp find rematch size nfrag = some frs) :
    frs ≠ [] ∧ frs.length ≤ nfrag ∧ ∀ p ∈ frs, WellFormed t size p := by
  unfold fieldHighlights at h
  simp only at h
  split at h
  · simp at h
  · rename_i hne
    have hfr := Option.some.inj h
    subst hfr
    obtain ⟨h1, h2⟩ := wellformed_partial t hp find rematch size nfrag hr hwin
    refine ⟨?_, h1, h2⟩
    intro h0
    apply hne
    simp [h0]


/-! ## the fragment limit at its boundary value, and the seeded `while` shape (seeded/C21-c)

The model's loop is the code's `for _ in 0..number_of_fragments { if let Some(m) = … else break }`:
the limit is tested BEFORE a fragment is produced, so `highlightFragments_length` holds for every
`nfrag`, `0` included.  The seeded variant

    while let Some(m) = re.find_at(text, offset) { …push…; if out.len() >= n { break }; offset = m.end() }

tests the limit only AFTER a push: it agrees with the `for` shape for every `n ≥ 1` and returns
one fragment for `n = 0`. -/

/-- no fragment at all is returned for `number_of_fragments = 0` -/
theorem zero_fragments (slice : Bytes → Nat → Nat → Bytes) (t : Bytes) (hp : Bool)
    (find : Nat → Option Span) (rematch : Bytes → List Span) (size : Nat) :
    highlightFragments slice t hp find rematch size 0 = [] ∧
    fieldHighlights slice t hp find rematch size 0 = none := by
  have h := highlightFragments_length slice t hp find rematch size 0
  have h0 : highlightFragments slice t hp find rematch size 0 = [] :=
    List.eq_nil_of_length_eq_zero (Nat.le_zero.mp h)
  exact ⟨h0, by simp [fieldHighlights, h0]⟩

/-- the seeded `while` shape; `fuel` bounds the number of matches (any value ≥ the text length
does), `cnt` = `out.len()` before this iteration -/
def fragsWhile (slice : Bytes → Nat → Nat → Bytes) (t : Bytes) (find : Nat → Option Span)
    (rematch : Bytes → List Span) (size n : Nat) : Nat → Nat → Nat → List (List Piece)
  | 0, _, _ => []
  | fuel + 1, off, cnt =>
    match find off with
    | none => []
    | some m =>
      let f := slice t m.1 size
      tagPieces f (rematch f) ::
        (if n ≤ cnt + 1 then [] else fragsWhile slice t find rematch size n fuel m.2 (cnt + 1))

/-- negative witness for the seeded shape: text `"a b c"`, query `b`, `number_of_fragments = 0`:
the `while` shape returns ONE fragment, the model (the code's `for` shape) none; for
`number_of_fragments = 1, 2` the two shapes agree. -/
theorem while_shape_breaks_zero :
    (fragsWhile sliceSnap [0x61, 0x20, 0x62, 0x20, 0x63]
        (fun off => if off ≤ 2 then some (2, 3) else none)
        (fun f => if f = [0x20, 0x62] then [(1, 2)] else []) 2 0 5 0 0).length = 1 ∧
    (highlightFragments sliceSnap [0x61, 0x20, 0x62, 0x20, 0x63] true
        (fun off => if off ≤ 2 then some (2, 3) else none)
        (fun f => if f = [0x20, 0x62] then [(1, 2)] else []) 2 0).length = 0 ∧
    (∀ n ∈ [1, 2], fragsWhile sliceSnap [0x61, 0x20, 0x62, 0x20, 0x63]
        (fun off => if off ≤ 2 then some (2, 3) else none)
        (fun f => if f = [0x20, 0x62] then [(1, 2)] else []) 2 n 5 0 0 =
      highlightFragments sliceSnap [0x61, 0x20, 0x62, 0x20, 0x63] true
        (fun off => if off ≤ 2 then some (2, 3) else none)
        (fun f => if f = [0x20, 0x62] then [(1, 2)] else []) 2 n) := by
  decide

/-! ## non-vacuity: the hypotheses are satisfiable and the conclusion is about a real fragment -/

def exText : Bytes := [0x61, 0x20, 0x62, 0x20, 0x63]      -- "a b c"
def exFind : Nat → Option Span := fun off => if off ≤ 2 then some (2, 3) else none
def exRematch : Bytes → List Span := fun f => if f = [0x20, 0x62] then [(1, 2)] else []

example : RegexOk sliceCode exText 2 exFind exRematch where
  find_span := by
    intro off m h
    simp only [exFind] at h
    split at h
    · cases h; decide
    · cases h
  fits := by
    intro off m h
    simp only [exFind] at h
    split at h
    · cases h; decide
    · cases h
  re_spans := by
    intro f
    simp only [exRematch]
    split
    · rename_i h; subst h; decide
    · rfl
  re_finds := by
    intro off m h
    simp only [exFind] at h
    split at h
    · cases h; decide
    · cases h

example : highlightFragments sliceCode exText true exFind exRematch 2 3
    = [[Piece.raw [0x20], Piece.pre, Piece.raw [0x62], Piece.post, Piece.raw []]] := by decide

example : render [0x3C] [0x3E] [Piece.raw [0x20], Piece.pre, Piece.raw [0x62], Piece.post, Piece.raw []]
    = [0x20, 0x3C, 0x62, 0x3E] := by decide

example : snapUp witnessText 3 1 = 2 ∧ snapDown witnessText 1 = 0 := by decide

end SL.Highlight
