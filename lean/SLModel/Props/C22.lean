import SLModel.Core.Suggest
import SLModel.Lemmas.Suggest
import SLModel.Lemmas.SuggestLev
import SLModel.Lemmas.ISort
/-!
# C22 — completion suggestions are consistent with the term dictionary

Property (properties.jsonl): suggestions are deterministic: at most `size` options sorted by
score descending then text, each an indexed term of the field that starts with the analyzed
prefix (or, with fuzzy options, lies within `max_edits` of it and shares its first
`prefix_length` characters), with `doc_freq` = number of indexed documents containing the term,
and independent of segment layout while fewer terms than the scan cap match.

Model: `Core/Suggest` (`suggest`), over per-segment dictionaries `(term, df)`; no deletions, so
the number of documents containing `t` is `totalDf segs t` = Σ over segments of `df`.

Theorems (all for arbitrary dictionaries, inputs, sizes, options):
* `suggest_sorted_size`       — ≤ `size` options, sorted by the code's comparator, texts distinct;
* `suggest_prefix`            — prefix mode: every option starts with the input, is indexed;
* `suggest_fuzzy`             — fuzzy mode: Levenshtein distance ≤ `min max_edits 2`, shares the
                                first `prefix_length` characters, is indexed
                                (`lev_textbook`: the bounded DP = textbook recurrence, cut off);
* `scan_is_sublist`           — the scan = merge of a sub-list of the qualifying entries;
* `scan_is_merge`             — while the number of DISTINCT qualifying terms is ≤ the scan cap
                                the scan = merge of ALL qualifying entries of all segments;
* `suggest_df_sum`            — then `doc_freq = totalDf` and score = weight · `totalDf`;
* `suggest_complete`          — then every qualifying indexed term is a candidate (so the result
                                is the top `size` of all of them);
* `suggest_layout_independent`— then two layouts with the same per-term totals (the same
                                documents distributed differently over segments) give identical
                                options — the hypothesis is needed for ONE layout only
                                (`matchingTerms_layout`).

All at full strength: the hypothesis is the property's own "fewer terms than the scan cap match"
(`matchingTerms … ≤ scanCap`, which `<` implies).

History: before /repo commit e9ca503 the cap counted one unit per (segment, term) pair
(`legacy_scanSegs`, `legacy_collect`, `legacy_suggest` in `Core/Suggest`); the property was false
of that code — `legacy_cap_counts_pairs_not_terms` (kernel-checked) keeps the witness, and
`fixed_on_witness` shows the current model on the same input.  Finding
`suggest.cap-counts-segment-pairs`: fixed.
-/
set_option linter.unusedSectionVars false
namespace SL.Suggest
open SL.ISort (StrictTotal Sorted)
variable {κ : Type} [DecidableEq κ]

/-! ## vocabulary -/

/-- number of documents containing `t` (no deletions): sum of the per-segment `df` -/
def totalDf (segs : List (Dict κ)) (t : List κ) : Nat := tdf segs.flatten t

/-- `t` is in the term dictionary of some segment with a non-empty postings list -/
def Indexed (segs : List (Dict κ)) (t : List κ) : Prop :=
  ∃ seg ∈ segs, ∃ df, (t, df) ∈ seg ∧ df ≠ 0

/-- the scan cap of the request -/
def scanCap (size : Nat) : Option FuzzyOpts → Nat
  | none => prefixCap size
  | some o => fuzzyCap o size

/-- the per-entry test of the request -/
def qOf (input : List κ) : Option FuzzyOpts → List κ × Nat → Option (Contrib κ)
  | none => qPrefix input
  | some o => qFuzzy input (input.take (min o.prefixLength input.length)) (min o.maxEdits 2)

/-- fuzzy requests that return nothing by construction -/
def disabled (input : List κ) : Option FuzzyOpts → Bool
  | none => false
  | some o => input.length < o.minLength || o.maxExpansions == 0 || min o.maxEdits 2 == 0

/-- which terms qualify, and with which weight (×6) -/
def okOf (input : List κ) : Option FuzzyOpts → List κ → Bool
  | none => fun t => input.isPrefixOf t && !t.isEmpty
  | some o => fun t =>
    (input.take (min o.prefixLength input.length)).isPrefixOf t && !t.isEmpty &&
      decide (absDiff t.length input.length ≤ min o.maxEdits 2) &&
      (boundedLev input t (min o.maxEdits 2)).isSome

def wOf (input : List κ) : Option FuzzyOpts → List κ → Nat
  | none => fun _ => 6
  | some o => fun t => weight6 ((boundedLev input t (min o.maxEdits 2)).getD 0)

/-- what the LEGACY cap counted: qualifying (segment, term) pairs -/
def matchingPairs (segs : List (Dict κ)) (input : List κ) (fz : Option FuzzyOpts) : Nat :=
  (segs.flatten.filterMap (qOf input fz)).length

/-- what the property speaks about and the cap now bounds: the number of distinct qualifying
terms = size of the merged map of all qualifying entries -/
def matchingTerms (segs : List (Dict κ)) (input : List κ) (fz : Option FuzzyOpts) : Nat :=
  (mergeAll (segs.flatten.filterMap (qOf input fz))).length

/-! ## structure of `collect` -/

theorem qOf_eq_qGen (input : List κ) (fz : Option FuzzyOpts) :
    qOf input fz = qGen (okOf input fz) (wOf input fz) := by
  funext e
  cases fz with
  | none => simp [qOf, qPrefix, qGen, okOf, wOf]
  | some o =>
    simp only [qOf, qFuzzy, qGen, okOf, wOf]
    by_cases hc : ((input.take (min o.prefixLength input.length)).isPrefixOf e.1 && !e.1.isEmpty &&
        decide (absDiff e.1.length input.length ≤ min o.maxEdits 2)) = true
    · rw [if_pos hc]
      split
      · rename_i hb; simp [hc, hb]
      · rename_i d hb; simp [hc, hb]
    · rw [if_neg hc]
      have hc' : ((input.take (min o.prefixLength input.length)).isPrefixOf e.1 && !e.1.isEmpty &&
        decide (absDiff e.1.length input.length ≤ min o.maxEdits 2)) = false := by
        simpa using hc
      simp [hc']

theorem collectWith_eq (scan : (List κ × Nat → Option (Contrib κ)) → Nat → List (Cand κ))
    (input : List κ) (size : Nat) (fz : Option FuzzyOpts) :
    collectWith scan input size fz =
      if disabled input fz then [] else scan (qOf input fz) (scanCap size fz) := by
  cases fz with
  | none => simp [collectWith, disabled, qOf, scanCap]
  | some o =>
    simp only [collectWith, disabled, qOf, scanCap]
    by_cases h1 : (decide (input.length < o.minLength) || o.maxExpansions == 0) = true
    · simp [h1]
    · have h1' : (decide (input.length < o.minLength) || o.maxExpansions == 0) = false := by
        simpa using h1
      by_cases h2 : (min o.maxEdits 2 == 0) = true
      · simp [h1', h2]
      · have h2' : (min o.maxEdits 2 == 0) = false := by simpa using h2
        simp [h1', h2']

theorem collect_eq (segs : List (Dict κ)) (input : List κ) (size : Nat) (fz : Option FuzzyOpts) :
    collect segs input size fz =
      if disabled input fz then []
      else scanSegs (qOf input fz) (scanCap size fz) [] segs := by
  unfold collect; rw [collectWith_eq]

theorem legacy_collect_eq (segs : List (Dict κ)) (input : List κ) (size : Nat)
    (fz : Option FuzzyOpts) :
    legacy_collect segs input size fz =
      if disabled input fz then []
      else mergeAll (legacy_scanSegs (qOf input fz) (scanCap size fz) 0 segs) := by
  unfold legacy_collect; rw [collectWith_eq]

/-- LEGACY: the scan loop with its `break`s accepted exactly the first `cap` qualifying
(segment, term) pairs, in segment order then key order -/
theorem legacy_scan_is_take (segs : List (Dict κ)) (input : List κ) (size : Nat)
    (fz : Option FuzzyOpts) :
    legacy_scanSegs (qOf input fz) (scanCap size fz) 0 segs =
      (segs.flatten.filterMap (qOf input fz)).take (scanCap size fz) :=
  legacy_scanSegs_zero _ _ _

/-- a contribution carries the term of its dictionary entry -/
theorem qOf_fst (input : List κ) (fz : Option FuzzyOpts) (e : List κ × Nat) (c : Contrib κ)
    (h : qOf input fz e = some c) : c.1 = e.1 := by
  rw [qOf_eq_qGen] at h
  unfold qGen at h
  split at h
  · cases h; rfl
  · cases h

/-- the scan is the merge of a sub-list of the qualifying entries (no hypothesis) -/
theorem scan_is_sublist (segs : List (Dict κ)) (input : List κ) (size : Nat)
    (fz : Option FuzzyOpts) :
    ∃ A, A.Sublist (segs.flatten.filterMap (qOf input fz)) ∧
      scanSegs (qOf input fz) (scanCap size fz) [] segs = mergeAll A := by
  obtain ⟨A, hA, h⟩ := scanSegs_sub (qOf input fz) (scanCap size fz) segs []
  exact ⟨A, hA, by simpa [mergeAll] using h⟩

/-- **while the number of distinct qualifying terms is at most the cap, the scan is the merge
of all qualifying entries of all segments** -/
theorem scan_is_merge (segs : List (Dict κ)) (input : List κ) (size : Nat) (fz : Option FuzzyOpts)
    (hcap : matchingTerms segs input fz ≤ scanCap size fz) :
    scanSegs (qOf input fz) (scanCap size fz) [] segs =
      mergeAll (segs.flatten.filterMap (qOf input fz)) := by
  have := scanSegs_full (qOf input fz) (qOf_fst input fz) (scanCap size fz) segs []
    (by simpa [matchingTerms] using hcap)
  simpa [mergeAll] using this

theorem mem_suggest {ltT : List κ → List κ → Bool} {segs : List (Dict κ)} {input : List κ}
    {size : Nat} {fz : Option FuzzyOpts} {c : Cand κ} (h : c ∈ suggest ltT segs input size fz) :
    c ∈ collect segs input size fz := by
  unfold suggest at h
  split at h
  · cases h
  · exact (mem_sortBy _ _ _).mp (List.mem_of_mem_take h)

/-- every candidate stems from a qualifying dictionary entry (no cap hypothesis) -/
theorem collect_sound (segs : List (Dict κ)) (input : List κ) (size : Nat) (fz : Option FuzzyOpts)
    (c : Cand κ) (h : c ∈ collect segs input size fz) :
    disabled input fz = false ∧ okOf input fz c.term = true ∧ Indexed segs c.term := by
  rw [collect_eq] at h
  split at h
  · cases h
  · rename_i hd
    refine ⟨by simpa using hd, ?_⟩
    obtain ⟨A, hA, hscan⟩ := scan_is_sublist segs input size fz
    rw [hscan, mem_mergeAll] at h
    obtain ⟨ht, _, _⟩ := h
    rw [List.mem_map] at ht
    obtain ⟨x, hx, hxt⟩ := ht
    have hx' := hA.subset hx
    rw [qOf_eq_qGen] at hx'
    obtain ⟨a1, a2, a3, _⟩ := mem_filterMap_qGen _ _ _ x hx'
    rw [hxt] at a1 a2
    refine ⟨a1, ?_⟩
    obtain ⟨seg, hseg, hmem⟩ := List.mem_flatten.mp a2
    exact ⟨seg, hseg, x.2.1, hmem, a3⟩

/-! ## order -/

theorem before_iff (ltT : List κ → List κ → Bool) (a b : Cand κ) :
    before ltT a b = true ↔
      (b.score6 < a.score6 ∨
        (a.score6 = b.score6 ∧ (ltT a.term b.term = true ∨ (a.term = b.term ∧ a.df < b.df)))) := by
  simp [before]

theorem before_strictTotal {ltT : List κ → List κ → Bool} (h : StrictTotal ltT) :
    StrictTotal (before (κ := κ) ltT) where
  irrefl := by
    intro a
    cases hb : before ltT a a with
    | false => rfl
    | true =>
      rw [before_iff] at hb
      rcases hb with hb | ⟨_, hb | ⟨_, hb⟩⟩
      · omega
      · rw [h.irrefl] at hb; cases hb
      · omega
  trans := by
    intro a b c hab hbc
    rw [before_iff] at hab hbc ⊢
    rcases hab with hab | ⟨e1, hab⟩
    · rcases hbc with hbc | ⟨e2, _⟩
      · exact Or.inl (by omega)
      · exact Or.inl (by omega)
    · rcases hbc with hbc | ⟨e2, hbc⟩
      · exact Or.inl (by omega)
      · refine Or.inr ⟨by omega, ?_⟩
        rcases hab with hab | ⟨t1, d1⟩
        · rcases hbc with hbc | ⟨t2, _⟩
          · exact Or.inl (h.trans _ _ _ hab hbc)
          · rw [← t2]; exact Or.inl hab
        · rcases hbc with hbc | ⟨t2, d2⟩
          · rw [t1]; exact Or.inl hbc
          · exact Or.inr ⟨t1.trans t2, by omega⟩
  total := by
    intro a b hne
    rw [before_iff, before_iff]
    by_cases hs : a.score6 = b.score6
    · by_cases ht : a.term = b.term
      · by_cases hd : a.df = b.df
        · exfalso; apply hne
          cases a; cases b; simp_all
        · rcases Nat.lt_or_gt_of_ne hd with hd | hd
          · exact Or.inl (Or.inr ⟨hs, Or.inr ⟨ht, hd⟩⟩)
          · exact Or.inr (Or.inr ⟨hs.symm, Or.inr ⟨ht.symm, hd⟩⟩)
      · rcases h.total _ _ ht with hl | hl
        · exact Or.inl (Or.inr ⟨hs, Or.inl hl⟩)
        · exact Or.inr (Or.inr ⟨hs.symm, Or.inl hl⟩)
    · rcases Nat.lt_or_gt_of_ne hs with hs | hs
      · exact Or.inr (Or.inl hs)
      · exact Or.inl (Or.inl hs)

/-- on records with different texts the total order is the code's comparator -/
theorem before_eq_codeBefore (ltT : List κ → List κ → Bool) (a b : Cand κ)
    (hne : a.term ≠ b.term) : before ltT a b = codeBefore ltT a b := by
  have : (a.term == b.term) = false := by simpa using hne
  simp [before, codeBefore, this]

theorem collect_terms_nodup (segs : List (Dict κ)) (input : List κ) (size : Nat)
    (fz : Option FuzzyOpts) : (terms (collect segs input size fz)).Nodup := by
  rw [collect_eq]
  split
  · simp [terms]
  · obtain ⟨A, _, hscan⟩ := scan_is_sublist segs input size fz
    rw [hscan]
    exact mergeAll_nodup A

theorem suggest_terms_nodup (ltT : List κ → List κ → Bool) (segs : List (Dict κ)) (input : List κ)
    (size : Nat) (fz : Option FuzzyOpts) : (terms (suggest ltT segs input size fz)).Nodup := by
  unfold suggest
  split
  · simp [terms]
  · have hp : (terms (sortBy (before ltT) (collect segs input size fz))).Perm
        (terms (collect segs input size fz)) := (sortBy_perm _ _).map _
    have hn := hp.symm.nodup (collect_terms_nodup segs input size fz)
    unfold terms at hn ⊢
    rw [List.map_take]
    exact List.Nodup.sublist (List.take_sublist _ _) hn

/-! ## the property, clause by clause -/

/-- at most `size` options; sorted by score descending then text ascending (the code's
comparator); texts pairwise distinct -/
theorem suggest_sorted_size {ltT : List κ → List κ → Bool} (h : StrictTotal ltT)
    (segs : List (Dict κ)) (input : List κ) (size : Nat) (fz : Option FuzzyOpts) :
    (suggest ltT segs input size fz).length ≤ size ∧
    (suggest ltT segs input size fz).Pairwise
      (fun a b => codeBefore ltT b a = false ∧ a.term ≠ b.term) := by
  have hnd := suggest_terms_nodup ltT segs input size fz
  have hnd' : (suggest ltT segs input size fz).Pairwise (fun a b => a.term ≠ b.term) := by
    unfold terms at hnd
    exact List.Pairwise.of_map (fun (z : Cand κ) => z.term) (fun _ _ hab => hab) hnd
  have hsorted : (suggest ltT segs input size fz).Pairwise (fun a b => before ltT b a = false) := by
    unfold suggest
    split
    · exact List.Pairwise.nil
    · have := SL.ISort.isort_sorted (before_strictTotal h) (collect segs input size fz)
      rw [← sortBy_eq] at this
      exact List.Pairwise.sublist (List.take_sublist _ _) this
  constructor
  · unfold suggest
    split
    · simp
    · rw [List.length_take]; omega
  · refine List.Pairwise.imp₂ ?_ hsorted hnd'
    intro a b h1 h2
    refine ⟨?_, h2⟩
    rw [← before_eq_codeBefore ltT b a (fun e => h2 e.symm)]
    exact h1

/-- prefix mode: every option is an indexed, non-empty term that starts with the analyzed
prefix -/
theorem suggest_prefix (ltT : List κ → List κ → Bool) (segs : List (Dict κ)) (input : List κ)
    (size : Nat) : ∀ c ∈ suggest ltT segs input size none,
      input <+: c.term ∧ c.term ≠ [] ∧ Indexed segs c.term := by
  intro c hc
  obtain ⟨_, hok, hidx⟩ := collect_sound segs input size none c (mem_suggest hc)
  simp only [okOf, Bool.and_eq_true, List.isPrefixOf_iff_prefix, Bool.not_eq_true',
    List.isEmpty_eq_false_iff] at hok
  exact ⟨hok.1, hok.2, hidx⟩

theorem take_min_length {α : Type} (l : List α) (p : Nat) : l.take (min p l.length) = l.take p := by
  by_cases h : p ≤ l.length
  · rw [Nat.min_eq_left h]
  · have h' : l.length ≤ p := by omega
    rw [Nat.min_eq_right h', List.take_of_length_le (Nat.le_refl _), List.take_of_length_le h']

/-- the distance in `suggest_fuzzy` is the textbook Levenshtein distance: `lev` (what the row DP
computes, prefixes of both strings) equals the head recurrence `levH`, whose defining equations
are `levH_nil`, `levH_cons_nil`, `levH_cons_cons`; the code's bounded DP returns it when it is
`≤ k` and `None` otherwise -/
theorem lev_textbook (a b : List κ) (k : Nat) :
    lev a b = levH a b ∧
    boundedLev a b k = (if levH a b ≤ k then some (levH a b) else none) ∧
    levH ([] : List κ) b = b.length ∧ levH a [] = a.length ∧
    (∀ x y, levH (x :: a) (y :: b) =
      min (min (levH a (y :: b) + 1) (levH (x :: a) b + 1)) (levH a b + cost x y)) := by
  refine ⟨lev_eq_levH a b, ?_, levH_nil b, levH_nil_right a, fun x y => levH_cons_cons x y a b⟩
  rw [boundedLev_eq, lev_eq_levH]

/-- fuzzy mode: every option is an indexed term within Levenshtein distance `min max_edits 2`
(hence within `max_edits`) of the analyzed prefix that shares its first `prefix_length`
characters; the request's `min_length` holds -/
theorem suggest_fuzzy (ltT : List κ → List κ → Bool) (segs : List (Dict κ)) (input : List κ)
    (size : Nat) (o : FuzzyOpts) : ∀ c ∈ suggest ltT segs input size (some o),
      lev input c.term ≤ min o.maxEdits 2 ∧ lev input c.term ≤ o.maxEdits ∧
      input.take o.prefixLength <+: c.term ∧ c.term ≠ [] ∧ Indexed segs c.term ∧
      o.minLength ≤ input.length := by
  intro c hc
  obtain ⟨hd, hok, hidx⟩ := collect_sound segs input size (some o) c (mem_suggest hc)
  simp only [okOf, Bool.and_eq_true, List.isPrefixOf_iff_prefix, Bool.not_eq_true',
    List.isEmpty_eq_false_iff, decide_eq_true_eq] at hok
  obtain ⟨⟨⟨hp, hne⟩, _⟩, hb⟩ := hok
  rw [take_min_length] at hp
  rw [boundedLev_eq] at hb
  have hlev : lev input c.term ≤ min o.maxEdits 2 := by
    by_cases hl : lev input c.term ≤ min o.maxEdits 2
    · exact hl
    · simp [hl] at hb
  simp only [disabled, Bool.or_eq_false_iff, decide_eq_false_iff_not] at hd
  exact ⟨hlev, by omega, hp, hne, hidx, by omega⟩

/-- the merge of ALL qualifying entries, in terms of the corpus totals -/
theorem mem_mergeAll_qOf (segs : List (Dict κ)) (input : List κ) (fz : Option FuzzyOpts)
    (c : Cand κ) :
    c ∈ mergeAll (segs.flatten.filterMap (qOf input fz)) ↔
      (okOf input fz c.term = true ∧ totalDf segs c.term ≠ 0 ∧
        c.df = totalDf segs c.term ∧ c.score6 = wOf input fz c.term * totalDf segs c.term) := by
  rw [mem_mergeAll, qOf_eq_qGen, mem_terms_qGen, dfSum_qGen, scSum_qGen]
  unfold totalDf
  constructor
  · rintro ⟨⟨h1, h2⟩, h3, h4⟩
    rw [if_pos h1] at h3 h4
    exact ⟨h1, h2, h3, h4⟩
  · rintro ⟨h1, h2, h3, h4⟩
    refine ⟨⟨h1, h2⟩, ?_, ?_⟩
    · rw [if_pos h1]; exact h3
    · rw [if_pos h1]; exact h4

/-- the number of distinct qualifying terms depends on the corpus only through the per-term
totals, i.e. not on how the documents are distributed over segments -/
theorem matchingTerms_layout (segs₁ segs₂ : List (Dict κ)) (input : List κ) (fz : Option FuzzyOpts)
    (hsame : ∀ t, totalDf segs₁ t = totalDf segs₂ t) :
    matchingTerms segs₁ input fz = matchingTerms segs₂ input fz := by
  unfold matchingTerms
  apply List.Perm.length_eq
  rw [List.perm_ext_iff_of_nodup (nodup_of_terms_nodup _ (mergeAll_nodup _))
    (nodup_of_terms_nodup _ (mergeAll_nodup _))]
  intro c
  rw [mem_mergeAll_qOf, mem_mergeAll_qOf, hsame c.term]

/-- membership while at most `cap` distinct terms match: a record is a candidate iff its term
qualifies and is indexed, its `doc_freq` is the total over segments and its score the weight
times that -/
theorem mem_collect_under_cap (segs : List (Dict κ)) (input : List κ) (size : Nat)
    (fz : Option FuzzyOpts) (hcap : matchingTerms segs input fz ≤ scanCap size fz) (c : Cand κ) :
    c ∈ collect segs input size fz ↔
      (disabled input fz = false ∧ okOf input fz c.term = true ∧ totalDf segs c.term ≠ 0 ∧
        c.df = totalDf segs c.term ∧ c.score6 = wOf input fz c.term * totalDf segs c.term) := by
  rw [collect_eq]
  by_cases hd : disabled input fz = true
  · simp [hd]
  · have hd' : disabled input fz = false := by simpa using hd
    simp only [hd', Bool.false_eq_true, if_false, true_and]
    rw [scan_is_merge segs input size fz hcap, mem_mergeAll_qOf]

/-- `doc_freq` = number of documents containing the term, score = weight × that
— while the number of distinct matching terms is at most the scan cap -/
theorem suggest_df_sum (ltT : List κ → List κ → Bool) (segs : List (Dict κ))
    (input : List κ) (size : Nat) (fz : Option FuzzyOpts)
    (hcap : matchingTerms segs input fz ≤ scanCap size fz) :
    ∀ c ∈ suggest ltT segs input size fz,
      c.df = totalDf segs c.term ∧ c.score6 = wOf input fz c.term * totalDf segs c.term := by
  intro c hc
  have := (mem_collect_under_cap segs input size fz hcap c).mp (mem_suggest hc)
  exact ⟨this.2.2.2.1, this.2.2.2.2⟩

/-- the weight of an option in fuzzy mode is `6 / (distance + 1)`, exactly (distance ≤ 2) -/
theorem wOf_fuzzy (input : List κ) (o : FuzzyOpts) (t : List κ)
    (h : lev input t ≤ min o.maxEdits 2) :
    wOf input (some o) t = weight6 (lev input t) ∧ weight6 (lev input t) * (lev input t + 1) = 6 := by
  simp only [wOf, boundedLev_eq, h, if_true, Option.getD_some, true_and]
  have h2 : lev input t ≤ 2 := by omega
  generalize lev input t = d at h2
  have : d = 0 ∨ d = 1 ∨ d = 2 := by omega
  rcases this with rfl | rfl | rfl <;> decide

/-- completeness below the cap: every qualifying indexed term is a candidate -/
theorem suggest_complete (segs : List (Dict κ)) (input : List κ) (size : Nat)
    (fz : Option FuzzyOpts) (hcap : matchingTerms segs input fz ≤ scanCap size fz)
    (t : List κ) (hd : disabled input fz = false) (hok : okOf input fz t = true)
    (hidx : totalDf segs t ≠ 0) :
    (⟨t, totalDf segs t, wOf input fz t * totalDf segs t⟩ : Cand κ) ∈ collect segs input size fz :=
  (mem_collect_under_cap segs input size fz hcap _).mpr ⟨hd, hok, hidx, rfl, rfl⟩

/-- **Layout independence, full strength.**  Two layouts of the same corpus — the same
documents distributed differently over segments, hence the same per-term totals — give
identical options (texts, `doc_freq`, scores, order) while the number of distinct matching
terms is at most the scan cap.  The hypothesis is about the corpus, not about a layout
(`matchingTerms_layout`), so it is stated for one of them. -/
theorem suggest_layout_independent {ltT : List κ → List κ → Bool} (h : StrictTotal ltT)
    (segs₁ segs₂ : List (Dict κ)) (input : List κ) (size : Nat) (fz : Option FuzzyOpts)
    (hsame : ∀ t, totalDf segs₁ t = totalDf segs₂ t)
    (hcap : matchingTerms segs₁ input fz ≤ scanCap size fz) :
    suggest ltT segs₁ input size fz = suggest ltT segs₂ input size fz := by
  have h₂ : matchingTerms segs₂ input fz ≤ scanCap size fz := by
    rw [← matchingTerms_layout segs₁ segs₂ input fz hsame]; exact hcap
  have hperm : (collect segs₁ input size fz).Perm (collect segs₂ input size fz) := by
    rw [List.perm_ext_iff_of_nodup
      (nodup_of_terms_nodup _ (collect_terms_nodup segs₁ input size fz))
      (nodup_of_terms_nodup _ (collect_terms_nodup segs₂ input size fz))]
    intro c
    rw [mem_collect_under_cap segs₁ input size fz hcap, mem_collect_under_cap segs₂ input size fz h₂,
      hsame c.term]
  unfold suggest
  split
  · rfl
  · rw [sortBy_eq, sortBy_eq, SL.ISort.isort_perm (before_strictTotal h) hperm]

/-- the property's wording: *fewer* terms than the scan cap -/
theorem suggest_layout_independent_of_lt {ltT : List κ → List κ → Bool} (h : StrictTotal ltT)
    (segs₁ segs₂ : List (Dict κ)) (input : List κ) (size : Nat) (fz : Option FuzzyOpts)
    (hsame : ∀ t, totalDf segs₁ t = totalDf segs₂ t)
    (hcap : matchingTerms segs₁ input fz < scanCap size fz) :
    suggest ltT segs₁ input size fz = suggest ltT segs₂ input size fz :=
  suggest_layout_independent h segs₁ segs₂ input size fz hsame (Nat.le_of_lt hcap)

/-! ## the legacy model (before e9ca503): the cap counted (segment, term) pairs, not terms -/

/-- lexicographic order on `List Nat` (stands for byte order of the term text) -/
def lexLt : List Nat → List Nat → Bool
  | [], [] => false
  | [], _ :: _ => true
  | _ :: _, [] => false
  | x :: xs, y :: ys => decide (x < y) || (x == y && lexLt xs ys)

def wOpts : FuzzyOpts := ⟨1, 0, 2, 0⟩          -- max_edits 1, prefix_length 0, max_expansions 2
def wOne : List (Dict Nat) := [[([1, 2], 3)]]                               -- one segment, df 3
def wThree : List (Dict Nat) := [[([1, 2], 1)], [([1, 2], 1)], [([1, 2], 1)]]   -- three segments

/-- LEGACY model, kept as the record of the fixed finding.  One matching term, scan cap 2, same
corpus in two layouts: with three segments the third occurrence was never counted (`doc_freq` 2
instead of 3), although fewer terms (1) than the scan cap (2) match. -/
theorem legacy_cap_counts_pairs_not_terms :
    (∀ t, totalDf wOne t = totalDf wThree t) ∧
    scanCap 1 (some wOpts) = 2 ∧
    matchingTerms wOne [1, 2] (some wOpts) = 1 ∧ matchingTerms wThree [1, 2] (some wOpts) = 1 ∧
    matchingPairs wThree [1, 2] (some wOpts) = 3 ∧
    legacy_suggest lexLt wOne [1, 2] 1 (some wOpts) = [⟨[1, 2], 3, 18⟩] ∧
    legacy_suggest lexLt wThree [1, 2] 1 (some wOpts) = [⟨[1, 2], 2, 12⟩] := by
  refine ⟨?_, by decide, by decide, by decide, by decide, by decide, by decide⟩
  intro t
  by_cases h : t = [1, 2]
  · subst h; decide
  · have h' : ¬ [1, 2] = t := fun e => h e.symm
    simp [totalDf, tdf, wOne, wThree, h']

/-- the current model on the same input: both layouts give `doc_freq` 3 -/
theorem fixed_on_witness :
    suggest lexLt wOne [1, 2] 1 (some wOpts) = [⟨[1, 2], 3, 18⟩] ∧
    suggest lexLt wThree [1, 2] 1 (some wOpts) = [⟨[1, 2], 3, 18⟩] := by
  decide

/-- the cap still bounds the number of distinct terms: cap 2, three qualifying terms, the third
new term is refused while the first two keep accumulating from later segments -/
example : collect [[([1, 2], 1), ([1, 3], 1)], [([1, 2], 1), ([1, 4], 5), ([1, 3], 2)]] [1, 2] 1
    (some wOpts) = [⟨[1, 2], 2, 12⟩, ⟨[1, 3], 3, 9⟩] := by decide

/-! ## non-vacuity -/

def exSegs : List (Dict Nat) :=
  [[([1], 1), ([1, 2], 2), ([1, 3], 1), ([4], 5)], [([1, 2], 1), ([1, 3, 3], 4)]]

/-- prefix `[1]`, size 2: `[1,3,3]` (df 4) then `[1,2]` (df 2+1), scores ×6 -/
example : suggest lexLt exSegs [1] 2 none = [⟨[1, 3, 3], 4, 24⟩, ⟨[1, 2], 3, 18⟩] := by decide

/-- fuzzy around `[1,2]`, one edit, first character fixed: exact match weight 1, neighbours ½;
ties (`[1]` and `[1,3]`, both 3/6) in text order -/
example : suggest lexLt exSegs [1, 2] 5 (some ⟨1, 1, 50, 0⟩)
    = [⟨[1, 2], 3, 18⟩, ⟨[1], 1, 3⟩, ⟨[1, 3], 1, 3⟩] := by decide

example : matchingPairs exSegs [1] none = 5 ∧ scanCap 2 none = 64 := by decide

example : boundedLev [1, 2, 3] [1, 3] 1 = some 1 ∧ boundedLev [1, 2, 3] [3, 2, 1] 1 = none ∧
    lev [1, 2, 3] [3, 2, 1] = 2 := by decide

end SL.Suggest
