import SLModel.Lemmas.HttpWrites
import SLModel.Lemmas.HttpSched
/-!
# C23 — HTTP writes acknowledged as queued are never silently dropped

Model: `Core/HttpWrites` — every request of the HTTP service denotes a list of library calls
(`denote`) through a fresh writer handle, executed on the states of `Core/Contents`
(`mechRun`: segments, tombstones, cached live maps, the shared append-only log; `specRun`: the
committed map and the log).  `repaired = true` is the code as it exists (/repo commit 69e89dd:
`/add` and `/bulk` call `IndexWriter::add_documents`, which validates the whole batch before it
appends anything); `repaired = false` is the legacy handler (`add_document` per document,
`writer.rollback()` = truncation of the **whole** log after the first rejected one).

All statements quantify over **every** request sequence, every acceptance rule of the library
(`Rules`: which documents `add_document` accepts and under which id, which ids `validate_ids`
accepts), every document type with an idempotent stored projection.  What a reader sees is
`copies segs i` (the stored versions of id `i` among the live documents of all segments).

Tie to the code: `Drv/C23` runs `mechTrace` (the same `mechServe`/`denote`, `repaired = true`) on
the request sequences the harness sends to the real server and the harness compares, after every
request, the response class, the pending operations of the log file and the contents returned by
`/search`.

## Result

* For the **code as it exists** the property holds in full, without hypotheses on the request
  sequence: `acked_stay_queued`, `rejected_contributes_nothing`, `rejected_leaves_state`,
  `rejected_batch_appends_nothing`, `commit_applies_in_order`, `commit_last_acked_wins`; and
  (both denotations) `acked_appended`, `rejected_queues_nothing_own`, `commit_applies_pending`,
  `uncommitted_invisible`.
* **Legacy** (kernel-checked documentation of the original defect, fixed in 69e89dd):
  `legacy_acked_dropped_witness`, `legacy_acked_dropped_witness_bulk` (by `decide`),
  `legacy_rollback_drops_everything` (the mechanism, for all inputs); what held for the legacy
  handler only under the hypothesis `noLateRollback` (no request reaches `rollback()` while
  operations of earlier requests are pending): `legacy_acked_stay_queued_partial`,
  `legacy_commit_applies_in_order_partial`.  The full statement that failed for it:

      (mechRun false ru cfg (pre ++ post)).log.pending = post.flatMap (ackedOps ru)
-/
set_option linter.unusedSectionVars false
namespace SL.HttpWrites
open SL.Contents

variable {ι δ : Type} [DecidableEq ι]

/-- no `/commit` among the requests -/
def noCommit (rs : List (Req ι δ)) : Prop := ∀ r ∈ rs, r.isCommit = false

/-- `pre` ends with a `/commit` or is empty: `post` is everything since the last commit -/
def endsWithCommit (pre : List (Req ι δ)) : Prop := pre = [] ∨ ∃ p, pre = p ++ [Req.commit]

theorem flat_pending_after_commit (b : Bool) (ru : Rules ι δ) (proj : δ → δ)
    (pre : List (Req ι δ)) (h : endsWithCommit pre) : (flatRun b ru proj pre).pending = [] := by
  rcases h with h | ⟨p, h⟩
  · subst h; rfl
  · subst h
    rw [flatRun_eq, flatFold_append]
    simp [flatFold, flatStep, Req.isCommit]

theorem firstOps_length (ru : Rules ι δ) (docs : List δ) (h : (firstOps ru docs).2 = false) :
    (firstOps ru docs).1.length = docs.length := by
  induction docs with
  | nil => rfl
  | cons d ds ih =>
    simp only [firstOps] at h ⊢
    cases hd : ru.idOf d with
    | none => simp [hd] at h
    | some i =>
      simp only [hd] at h ⊢
      simp [ih h]

theorem rejected_facts (ru : Rules ι δ) (r : Req ι δ) (h : resp ru r = .rejected) :
    r.isCommit = false ∧ ackedOps ru r = [] := by
  cases r with
  | add docs =>
    refine ⟨rfl, ?_⟩
    simp only [resp] at h
    split at h
    · rename_i hf; simp [ackedOps, hf]
    · cases h
  | bulk docs =>
    refine ⟨rfl, ?_⟩
    simp only [resp] at h
    split at h
    · rename_i hf; simp only [ackedOps, hf, if_true]
    · cases h
  | delete ids =>
    refine ⟨rfl, ?_⟩
    simp only [resp] at h
    split at h
    · rename_i hf; simp only [ackedOps, hf, if_true]
    · cases h
  | malformed => exact ⟨rfl, rfl⟩
  | commit => simp [resp] at h
  | refresh => simp [resp] at h
  | compact => simp [resp] at h
  | search => simp [resp] at h

theorem queued_facts (ru : Rules ι δ) (r : Req ι δ) (k : Nat) (h : resp ru r = .queued k) :
    r.isCommit = false ∧ rollsBack ru r = false ∧ (ackedOps ru r).length = k := by
  cases r with
  | add docs =>
    simp only [resp] at h
    split at h
    · cases h
    · rename_i hf
      have hf' : (firstOps ru docs).2 = false := by simpa using hf
      injection h with h
      refine ⟨rfl, hf', ?_⟩
      simp [ackedOps, hf', firstOps_length ru docs hf', h]
  | bulk docs =>
    simp only [resp] at h
    split at h
    · cases h
    · rename_i hf
      have hf' : docs.isEmpty = false ∧ (firstOps ru docs).2 = false := by simpa using hf
      injection h with h
      refine ⟨rfl, hf'.2, ?_⟩
      simp [ackedOps, hf'.1, hf'.2, firstOps_length ru docs hf'.2, h]
  | delete ids =>
    simp only [resp] at h
    split at h
    · cases h
    · rename_i hf
      injection h with h
      refine ⟨rfl, rfl, ?_⟩
      simp only [ackedOps, hf]
      simp [h]
  | malformed => simp [resp] at h
  | commit => simp [resp] at h
  | refresh => simp [resp] at h
  | compact => simp [resp] at h
  | search => simp [resp] at h

/-! ## the code as it exists (`repaired = true`): the property in full -/

/-- **acked_stay_queued**: after any request sequence the log's pending operations are exactly
the concatenation, in order, of the documents/ids of all acknowledged write requests since the
last commit (rejected and non-write requests contribute `[]`, see
`rejected_contributes_nothing`), and no writer handle is left behind -/
theorem acked_stay_queued (ru : Rules ι δ) (cfg : Cfg δ)
    (hproj : ∀ d, cfg.proj (cfg.proj d) = cfg.proj d) (pre post : List (Req ι δ))
    (hpre : endsWithCommit pre) (hpost : noCommit post) :
    (mechRun true ru cfg (pre ++ post)).log.pending = post.flatMap (ackedOps ru) ∧
    (mechRun true ru cfg (pre ++ post)).handles = [] := by
  obtain ⟨h1, h2, _⟩ := mechRun_flat true ru cfg hproj (pre ++ post)
  refine ⟨?_, h2⟩
  rw [h1, flatRun_eq, flatFold_append, flatFold_noCommit ru cfg.proj post _ hpost, ← flatRun_eq,
    flat_pending_after_commit true ru cfg.proj pre hpre]
  rfl

/-- a rejected request (4xx) has no acknowledged operations … -/
theorem rejected_contributes_nothing (ru : Rules ι δ) (r : Req ι δ) (h : resp ru r = .rejected) :
    ackedOps ru r = [] := (rejected_facts ru r h).2

/-- … and leaves the log and what readers see exactly as they were -/
theorem rejected_leaves_state (ru : Rules ι δ) (cfg : Cfg δ)
    (hproj : ∀ d, cfg.proj (cfg.proj d) = cfg.proj d) (rs : List (Req ι δ)) (r : Req ι δ)
    (h : resp ru r = .rejected) :
    (mechRun true ru cfg (rs ++ [r])).log.pending = (mechRun true ru cfg rs).log.pending ∧
    ∀ i, copies (mechRun true ru cfg (rs ++ [r])).segs i = copies (mechRun true ru cfg rs).segs i := by
  obtain ⟨a1, _, a3⟩ := mechRun_flat true ru cfg hproj (rs ++ [r])
  obtain ⟨b1, _, b3⟩ := mechRun_flat true ru cfg hproj rs
  obtain ⟨hc, ha⟩ := rejected_facts ru r h
  have e : flatRun true ru cfg.proj (rs ++ [r]) = flatRun true ru cfg.proj rs := by
    rw [flatRun_eq, flatFold_append, ← flatRun_eq]
    simp [flatFold, flatStep, hc, ha]
  refine ⟨by rw [a1, b1, e], fun i => by rw [a3, b3, e]⟩

/-- **commit_applies_in_order**: after a `/commit` the log is empty and a reader sees, for every
id, exactly the result of folding — in order — the operations of all acknowledged write requests
so far (add = upsert of the stored projection, delete = remove) -/
theorem commit_applies_in_order (ru : Rules ι δ) (cfg : Cfg δ)
    (hproj : ∀ d, cfg.proj (cfg.proj d) = cfg.proj d) (rs : List (Req ι δ)) :
    (mechRun true ru cfg (rs ++ [.commit])).log.pending = [] ∧
    ∀ i, copies (mechRun true ru cfg (rs ++ [.commit])).segs i =
      (alGet ((rs.flatMap (ackedOps ru)).foldl (Spec.apply cfg.proj) []) i).toList := by
  obtain ⟨a1, _, a3⟩ := mechRun_flat true ru cfg hproj (rs ++ [.commit])
  have e : flatRun true ru cfg.proj (rs ++ [.commit]) =
      ⟨(rs.flatMap (ackedOps ru)).foldl (Spec.apply cfg.proj) [], []⟩ := by
    have t := flatFold_total ru cfg.proj rs ⟨[], []⟩
    rw [flatRun_eq, flatFold_append]
    simp only [flatFold, List.foldl_cons, List.foldl_nil, flatStep, Req.isCommit, if_true] at t ⊢
    rw [t]
    rfl
  exact ⟨by rw [a1, e], fun i => by rw [a3 i, e]⟩

/-- … read per id ("in order" = the last acknowledged operation on an id wins): after a `/commit`
a reader sees one copy of id `i` — the stored projection of the document of the last acknowledged
add of `i` — if the last acknowledged operation on `i` is an add, and nothing if it is a delete or
if no acknowledged operation touched `i` -/
theorem commit_last_acked_wins (ru : Rules ι δ) (cfg : Cfg δ)
    (hproj : ∀ d, cfg.proj (cfg.proj d) = cfg.proj d) (rs : List (Req ι δ)) (i : ι) :
    copies (mechRun true ru cfg (rs ++ [.commit])).segs i =
      match lastOp (rs.flatMap (ackedOps ru)) i with
      | some (some d) => [cfg.proj d]
      | _ => [] := by
  rw [(commit_applies_in_order ru cfg hproj rs).2 i, spec_fold_get]
  cases lastOp (rs.flatMap (ackedOps ru)) i with
  | none => rfl
  | some r => cases r <;> rfl

/-- validation comes first: a batch the library rejects appends **no** record at all — the
request only creates and drops its writer -/
theorem rejected_batch_appends_nothing (ru : Rules ι δ) (h : Nat) (docs : List δ)
    (hne : docs.isEmpty = false) (hr : (firstOps ru docs).2 = true) :
    denote true ru h (.add docs) = [.lib (.newWriter h), .lib (.dropWriter h)] ∧
    denote true ru h (.bulk docs) = [.lib (.newWriter h), .lib (.dropWriter h)] := by
  simp [denote, ingest, hne, hr]

/-- the two denotations differ only on rejected batches: a request the library does not reject
performs the same library calls in both -/
theorem denote_eq_of_not_rejected (ru : Rules ι δ) (h : Nat) (r : Req ι δ)
    (hr : rollsBack ru r = false) : denote false ru h r = denote true ru h r := by
  cases r <;> simp_all [denote, ingest, rollsBack]

/-! ## both denotations, all sequences -/

/-- an acknowledged request (`200 {"queued":k}`) appends exactly its `k` operations -/
theorem acked_appended (b : Bool) (ru : Rules ι δ) (cfg : Cfg δ)
    (hproj : ∀ d, cfg.proj (cfg.proj d) = cfg.proj d) (rs : List (Req ι δ)) (r : Req ι δ) (k : Nat)
    (h : resp ru r = .queued k) :
    (mechRun b ru cfg (rs ++ [r])).log.pending = (mechRun b ru cfg rs).log.pending ++ ackedOps ru r ∧
    (ackedOps ru r).length = k := by
  obtain ⟨a1, _, _⟩ := mechRun_flat b ru cfg hproj (rs ++ [r])
  obtain ⟨b1, _, _⟩ := mechRun_flat b ru cfg hproj rs
  obtain ⟨hc, hb, hl⟩ := queued_facts ru r k h
  refine ⟨?_, hl⟩
  rw [a1, b1, flatRun_eq, flatFold_append, ← flatRun_eq]
  simp [flatFold, flatStep, hc, hb]

/-- a rejected request queues none of its own documents: the pending operations afterwards are a
prefix of those before (all of them — or, with the legacy handler, none: see
`legacy_rollback_drops_everything`) -/
theorem rejected_queues_nothing_own (b : Bool) (ru : Rules ι δ) (cfg : Cfg δ)
    (hproj : ∀ d, cfg.proj (cfg.proj d) = cfg.proj d) (rs : List (Req ι δ)) (r : Req ι δ)
    (h : resp ru r = .rejected) :
    (mechRun b ru cfg (rs ++ [r])).log.pending <+: (mechRun b ru cfg rs).log.pending := by
  obtain ⟨a1, _, _⟩ := mechRun_flat b ru cfg hproj (rs ++ [r])
  obtain ⟨b1, _, _⟩ := mechRun_flat b ru cfg hproj rs
  obtain ⟨hc, ha⟩ := rejected_facts ru r h
  rw [a1, b1, flatRun_eq, flatFold_append, ← flatRun_eq]
  simp only [flatFold, List.foldl_cons, List.foldl_nil, flatStep, hc, Bool.false_eq_true, if_false, ha,
    List.append_nil]
  split
  · exact List.nil_prefix
  · exact List.prefix_refl _

/-- `/commit` applies exactly the pending operations of the log, in order, to what readers saw
before, and empties the log -/
theorem commit_applies_pending (b : Bool) (ru : Rules ι δ) (cfg : Cfg δ)
    (hproj : ∀ d, cfg.proj (cfg.proj d) = cfg.proj d) (rs : List (Req ι δ)) :
    (mechRun b ru cfg (rs ++ [.commit])).log.pending = [] ∧
    ∃ C, (∀ i, copies (mechRun b ru cfg rs).segs i = (alGet C i).toList) ∧
      ∀ i, copies (mechRun b ru cfg (rs ++ [.commit])).segs i =
        (alGet ((mechRun b ru cfg rs).log.pending.foldl (Spec.apply cfg.proj) C) i).toList := by
  obtain ⟨a1, _, a3⟩ := mechRun_flat b ru cfg hproj (rs ++ [.commit])
  obtain ⟨b1, _, b3⟩ := mechRun_flat b ru cfg hproj rs
  have e : flatRun b ru cfg.proj (rs ++ [.commit]) =
      ⟨(flatRun b ru cfg.proj rs).pending.foldl (Spec.apply cfg.proj) (flatRun b ru cfg.proj rs).committed,
        []⟩ := by
    rw [flatRun_eq, flatFold_append, ← flatRun_eq]
    simp [flatFold, flatStep, Req.isCommit]
  refine ⟨by rw [a1, e], (flatRun b ru cfg.proj rs).committed, b3, fun i => ?_⟩
  rw [a3 i, e, b1]

/-- queued operations stay invisible: requests other than `/commit` do not change what a reader
sees (this includes `/compact`) -/
theorem uncommitted_invisible (b : Bool) (ru : Rules ι δ) (cfg : Cfg δ)
    (hproj : ∀ d, cfg.proj (cfg.proj d) = cfg.proj d) (pre post : List (Req ι δ))
    (hpost : noCommit post) (i : ι) :
    copies (mechRun b ru cfg (pre ++ post)).segs i = copies (mechRun b ru cfg pre).segs i := by
  obtain ⟨_, _, a3⟩ := mechRun_flat b ru cfg hproj (pre ++ post)
  obtain ⟨_, _, b3⟩ := mechRun_flat b ru cfg hproj pre
  rw [a3 i, b3 i, flatRun_eq, flatFold_append, committed_noCommit b ru cfg.proj post _ hpost,
    ← flatRun_eq]

/-! ## the legacy handler (`repaired = false`), fixed in /repo commit 69e89dd -/

/-- the mechanism of the original defect, for all inputs: a request that reached
`writer.rollback()` left **nothing** pending, whatever earlier requests had queued and been acknowledged for -/
theorem legacy_rollback_drops_everything (ru : Rules ι δ) (cfg : Cfg δ)
    (hproj : ∀ d, cfg.proj (cfg.proj d) = cfg.proj d) (rs : List (Req ι δ)) (r : Req ι δ)
    (h : rollsBack ru r = true) :
    (mechRun false ru cfg (rs ++ [r])).log.pending = [] := by
  obtain ⟨a1, _, _⟩ := mechRun_flat false ru cfg hproj (rs ++ [r])
  have hc : r.isCommit = false := by cases r <;> simp_all [rollsBack, Req.isCommit]
  rw [a1, flatRun_eq, flatFold_append]
  simp [flatFold, flatStep, hc, h]

/-- legacy handler: the statement of `acked_stay_queued` held only under the hypothesis that no
request reaches `rollback()` while operations of earlier requests are pending.  Missing: exactly
those sequences — see `legacy_acked_dropped_witness`.  (For the code as it exists the hypothesis
is gone: `acked_stay_queued`.) -/
theorem legacy_acked_stay_queued_partial (ru : Rules ι δ) (cfg : Cfg δ)
    (hproj : ∀ d, cfg.proj (cfg.proj d) = cfg.proj d) (pre post : List (Req ι δ))
    (hsafe : noLateRollback ru [] (pre ++ post) = true)
    (hpre : endsWithCommit pre) (hpost : noCommit post) :
    (mechRun false ru cfg (pre ++ post)).log.pending = post.flatMap (ackedOps ru) ∧
    (mechRun false ru cfg (pre ++ post)).handles = [] := by
  obtain ⟨h1, h2, _⟩ := mechRun_flat false ru cfg hproj (pre ++ post)
  obtain ⟨g1, _, _⟩ := mechRun_flat true ru cfg hproj (pre ++ post)
  have e : flatRun false ru cfg.proj (pre ++ post) = flatRun true ru cfg.proj (pre ++ post) :=
    flatFold_partial ru cfg.proj (pre ++ post) ⟨[], []⟩ hsafe
  refine ⟨?_, h2⟩
  rw [h1, e, ← g1]
  exact (acked_stay_queued ru cfg hproj pre post hpre hpost).1

/-- legacy handler, same hypothesis (code as it exists: `commit_applies_in_order`) -/
theorem legacy_commit_applies_in_order_partial (ru : Rules ι δ) (cfg : Cfg δ)
    (hproj : ∀ d, cfg.proj (cfg.proj d) = cfg.proj d) (rs : List (Req ι δ))
    (hsafe : noLateRollback ru [] (rs ++ [.commit]) = true) :
    (mechRun false ru cfg (rs ++ [.commit])).log.pending = [] ∧
    ∀ i, copies (mechRun false ru cfg (rs ++ [.commit])).segs i =
      (alGet ((rs.flatMap (ackedOps ru)).foldl (Spec.apply cfg.proj) []) i).toList := by
  obtain ⟨h1, _, h3⟩ := mechRun_flat false ru cfg hproj (rs ++ [.commit])
  obtain ⟨g1, _, g3⟩ := mechRun_flat true ru cfg hproj (rs ++ [.commit])
  have e : flatRun false ru cfg.proj (rs ++ [.commit]) = flatRun true ru cfg.proj (rs ++ [.commit]) :=
    flatFold_partial ru cfg.proj (rs ++ [Req.commit]) ⟨[], []⟩ hsafe
  obtain ⟨c1, c3⟩ := commit_applies_in_order ru cfg hproj rs
  refine ⟨by rw [h1, e, ← g1]; exact c1, fun i => ?_⟩
  rw [h3 i, e, ← g3 i]
  exact c3 i

/-! ## witnesses and non-vacuity (ids are naturals, a document is (id, version); id 0 is what
`add_document` / `validate_ids` reject; the stored projection is the identity) -/

def ruN : Rules Nat (Nat × Nat) :=
  { idOf := fun d => if d.1 = 0 then none else some d.1, idOk := fun i => i != 0 }

def cfgN : Cfg (Nat × Nat) := { proj := id, safe := true, reingestOk := fun _ => true }

/-- **negative witness** (legacy handler): `/add` of a valid document is acknowledged
(`queued 1`), a following `/add` whose only document has no id is rejected, `/commit` succeeds —
and a reader sees nothing: the acknowledged document is gone, although the fold of the
acknowledged operations holds it.  With the code as it exists it is there. -/
theorem legacy_acked_dropped_witness :
    resp ruN (.add [(1, 10)] : Req Nat (Nat × Nat)) = .queued 1 ∧
    resp ruN (.add [(0, 0)] : Req Nat (Nat × Nat)) = .rejected ∧
    abs (mechRun false ruN cfgN [.add [(1, 10)], .add [(0, 0)], .commit]).segs = [] ∧
    ([Req.add [(1, 10)], .add [(0, 0)]].flatMap (ackedOps ruN)).foldl (Spec.apply id) []
      = [(1, (1, 10))] ∧
    abs (mechRun true ruN cfgN [.add [(1, 10)], .add [(0, 0)], .commit]).segs = [(1, (1, 10))] := by
  decide

/-- the same through `/bulk`, with a deletion among the dropped operations and a valid document
of the failing batch itself (legacy: queued before the failure, then rolled back with everything
else; code as it exists: never appended) -/
theorem legacy_acked_dropped_witness_bulk :
    abs (mechRun false ruN cfgN
      [.add [(1, 10)], .commit, .delete [1], .bulk [(2, 20), (0, 0)], .add [(3, 30)], .commit]).segs
      = [(1, (1, 10)), (3, (3, 30))] ∧
    abs (mechRun true ruN cfgN
      [.add [(1, 10)], .commit, .delete [1], .bulk [(2, 20), (0, 0)], .add [(3, 30)], .commit]).segs
      = [(3, (3, 30))] := by
  decide

/-- the hypothesis of the `_partial` theorems excludes exactly that witness … -/
example : noLateRollback ruN [] [Req.add [(1, 10)], .add [(0, 0)], .commit] = false := by decide

/-- … and admits sequences with rejected requests of every kind, as long as a failing
`add_document` meets an empty log -/
example : noLateRollback ruN []
    [Req.add [(0, 0)], .add [(1, 10)], .malformed, .delete [0], .bulk [], .delete [1], .commit,
     .bulk [(2, 20), (0, 0)], .add [(1, 11), (4, 40)], .compact, .commit] = true := by decide

example : abs (mechRun false ruN cfgN
    [Req.add [(0, 0)], .add [(1, 10)], .malformed, .delete [0], .bulk [], .delete [1], .commit,
     .bulk [(2, 20), (0, 0)], .add [(1, 11), (4, 40)], .compact, .commit]).segs
    = [(4, (4, 40)), (1, (1, 11))] := by decide

/-- non-vacuity of `acked_stay_queued`: acknowledged adds and deletes of three requests
since the last commit, with rejected requests in between, are all pending, in order -/
example : (mechRun true ruN cfgN
    ([Req.add [(5, 50)], .commit] ++
     [.add [(1, 10), (2, 20)], .add [(0, 0)], .delete [2, 7], .bulk [(3, 30), (0, 0)], .delete [0],
      .search, .refresh, .compact, .bulk [(1, 11)]])).log.pending
    = [.add 1 (1, 10), .add 2 (2, 20), .del 2, .del 7, .add 1 (1, 11)] := by decide

example : endsWithCommit [Req.add [(5, 50)], (.commit : Req Nat (Nat × Nat))] :=
  Or.inr ⟨[.add [(5, 50)]], rfl⟩

example : noCommit [Req.add [(1, 10), (2, 20)], (.add [(0, 0)] : Req Nat (Nat × Nat)), .delete [2, 7]] := by
  intro r hr
  simp only [List.mem_cons, List.not_mem_nil, or_false] at hr
  rcases hr with h | h | h <;> subst h <;> rfl

/-- non-vacuity of `commit_applies_in_order`: upsert, delete of a committed id, re-add -/
example : abs (mechRun true ruN cfgN
    [Req.add [(1, 10), (2, 20)], .commit, .add [(1, 11)], .add [(0, 0)], .delete [2], .bulk [(2, 21)],
     .commit]).segs = [(2, (2, 21)), (1, (1, 11))] := by decide

/-- non-vacuity of `commit_last_acked_wins`: all three outcomes occur -/
example :
    let ops := [Req.add [(1, 10), (2, 20)], .add [(1, 11)], .add [(0, 0)], .delete [2]].flatMap (ackedOps ruN)
    lastOp ops 1 = some (some (1, 11)) ∧ lastOp ops 2 = some none ∧ lastOp ops 3 = none := by decide

/-- non-vacuity of `rejected_*` / `acked_appended`: the response classes occur -/
example : resp ruN (.bulk [(2, 20), (0, 0)] : Req Nat (Nat × Nat)) = .rejected ∧
    resp ruN (.delete [1, 0] : Req Nat (Nat × Nat)) = .rejected ∧
    resp ruN (.bulk [] : Req Nat (Nat × Nat)) = .rejected ∧
    resp ruN (.add [] : Req Nat (Nat × Nat)) = .queued 0 ∧
    resp ruN (.delete [4, 4] : Req Nat (Nat × Nat)) = .queued 2 ∧
    rollsBack ruN (.bulk [(2, 20), (0, 0)] : Req Nat (Nat × Nat)) = true := by decide


/-! ## concurrency: handler threads interleaved step by step (`Core/HttpSched`)

The theorems above treat a request as one atomic block.  These justify it: every handler takes
the service-wide lock **before** it creates its writer, so every interleaving of handler steps is
a serial execution of whole requests (in the order of their effect steps), and the serial
semantics never loses an operation.  With the `/commit` handler's snapshot taken *before* the lock
this is false (`snapshot_before_lock_loses_acked_write`). -/

namespace Sched
open SL.HttpSched

/-- **lock_first_serializable**: for every job assignment and every schedule (any number of
threads, any interleaving of their steps, threads waiting for the lock included) the handlers
exclude each other, and committed map and log are exactly what the atomic one-request-at-a-time
semantics gives for the jobs in the order of their effect steps -/
theorem lock_first_serializable (proj : δ → δ) (jobs : Nat → Job ι δ) (sched : List Nat) :
    let s := run true proj (start jobs) sched
    (∀ u, holds (s.th u) = true → s.lock = some u) ∧
    (s.committed, s.log) = serial proj s.hist ([], []) := by
  have hi := run_inv proj sched (inv_start proj jobs)
  exact ⟨hi.excl, hi.flat⟩

/-- **concurrent_writes_never_lost**: under any schedule, folding what is still pending over what
is committed gives the fold — in the order of the appends — of the operations of every write
whose append happened (an acknowledged write is one of them: the handler answers after its
append): nothing acknowledged is ever dropped by a concurrent `/commit` -/
theorem concurrent_writes_never_lost (proj : δ → δ) (jobs : Nat → Job ι δ) (sched : List Nat) :
    let s := run true proj (start jobs) sched
    s.log.foldl (Spec.apply proj) s.committed = (histOps s.hist).foldl (Spec.apply proj) [] := by
  have hi := run_inv proj sched (inv_start proj jobs)
  have t := serial_total proj (run true proj (start jobs) sched).hist ([], [])
  rw [← hi.flat] at t
  simpa using t

/-- thread 0 commits, thread 1 is an `/add` of document 10 under id 1 -/
def jobsW : Nat → Job Nat Nat := fun t => if t = 1 then .write [.add 1 10] else .commit

/-- **negative witness** (the `/commit` handler creating its writer before taking the lock):
three phases — commit takes its snapshot (empty); the `/add` runs to completion and is
acknowledged; commit takes the lock, applies the stale snapshot and truncates the log.  The
acknowledged document is neither committed nor pending.  Under the same schedule with the lock
first the `/add` simply waits, and once it has run its document is pending. -/
theorem snapshot_before_lock_loses_acked_write :
    let s := run false id (start jobsW) [0, 1, 1, 1, 0, 0, 0]
    ackedWrite s 1 = true ∧ s.committed = [] ∧ s.log = [] ∧ s.lock = none ∧
    (let s' := run true id (start jobsW) [0, 1, 1, 1, 0, 0, 0, 1, 1, 1]
     ackedWrite s' 1 = true ∧ s'.log = [.add 1 10] ∧
     (run true id s' [0, 0, 0, 0]).committed = [] ∧
     (run true id (run true id (start jobsW) [1, 1, 1]) [0, 0, 0, 0]).committed = [(1, 10)]) := by
  decide

end Sched

end SL.HttpWrites
