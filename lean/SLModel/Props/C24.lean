import SLModel.Core.HttpResp
/-!
# C24 — HTTP requests always get a well-formed response

Statements over the decision ladder `SL.Http.respond` (all endpoints, all fact
combinations; the fact record is finite, the proofs go through the ladder's combinators and
case analysis).  Tie to the code: `Drv/C24` runs `respond` and the harness sends the same
request to a live in-process server and compares status and body shape.

**Claimed as partial.**  "The server never dies / every request is answered" is established
by the live runs only (hyper/axum/tokio are outside the model).

State of the defects found by this check:

* *repaired in /repo (378f311)*: unknown path → `404` and registered path with another method
  → `405` used to carry an **empty** body.  `respond` models the repaired service (error body
  for both), `respond_wellformed_partial` no longer excludes them and
  `respond_wellformed_routed` is the full statement for every route except `/delete`;
  `legacy_witness_unknown_path` / `legacy_witness_wrong_method` keep the original defect as
  kernel-checked documentation over `respondLegacy`.
* *still open*: a body that exceeds the limit *while streaming* (chunked, no `Content-Length`)
  is answered `400` (`invalid_request` / `read_body`) instead of `413`
  (`witness_streamed_oversize_json`, `witness_streamed_oversize_ndjson`; `oversize_413_partial`
  covers the declared case only).
* *still open*: `/delete` is the only write handler that does not use `spawn_blocking`; a panic
  of the library there unwinds the connection task and the connection ends without a response
  (`witness_delete_panic`; the only case `excluded` still excludes).  Reproduced on the real
  server with a storage panic injected through the `searchlite_verif` `FsStorage` hook: `/add`,
  `/bulk`, `/commit`, `/search`, `/refresh`, `/compact` answer `500 *_join`, `/delete` answers
  nothing.

Full statement (false of the code, see the witnesses):
`theorem respond_wellformed (r) (f) : wellFormed (respond r f) = true` and
`theorem oversize_413 : (declared ∨ streamed oversize) → (respond r f).status = 413`.
-/
namespace SL.Http

/-- the requests on which the code is outside the property (the hypothesis of
`respond_wellformed_partial` is the negation of this): only a panic of the library under
`/delete`, once payload and ids are fine and the index is there -/
def excluded (r : Route) (f : Facts) : Bool :=
  if f.declaredOversize then false
  else match r with
    | .hit .delete =>
      f.payload == .ok && !f.inputBad && f.idx == .ready && f.core == .panic
    | _ => false

/-! ### every response is one of finitely many constants -/

/-- all error responses the handlers can produce -/
def errLeaves : List Resp :=
  [timeoutResp, errResp 400 .invalidRequest, errResp 404 .indexMissing, errResp 500 .openIndex,
   errResp 409 .indexExists, errResp 500 .initJoin, errResp 400 .initFailed,
   errResp 400 .readBody, errResp 400 .invalidDocument, errResp 500 .addJoin,
   errResp 500 .writerOpen, errResp 400 .addFailed, errResp 400 .missingOrInvalidInput,
   errResp 400 .deleteFailed, errResp 500 .commitJoin, errResp 500 .commitFailed,
   errResp 500 .refreshJoin, errResp 500 .refreshFailed, errResp 500 .compactJoin,
   errResp 500 .compactFailed, errResp 500 .searchJoin, errResp 400 .searchFailed,
   errResp 400 .invalidLimit, errResp 404 .notFound, errResp 405 .methodNotAllowed]

section ladder
set_option linter.unusedSectionVars false
variable (P : Resp → Prop) (f : Facts) (hok : P okResp) (herr : ∀ x ∈ errLeaves, P x)
include hok herr

theorem jsonExtract_leaf (k : Resp) (hk : P k) : P (jsonExtract f k) := by
  unfold jsonExtract
  split
  · exact herr _ (by decide)
  · exact herr _ (by decide)
  · exact hk

theorem requireIndex_leaf (k : Resp) (hk : P k) : P (requireIndex f k) := by
  unfold requireIndex
  split
  · exact hk
  · exact herr _ (by decide)
  · exact herr _ (by decide)

theorem ingest_leaf : P (ingest f) := by
  unfold ingest
  split
  · exact herr _ (by decide)
  · split
    · exact herr _ (by decide)
    · exact herr _ (by decide)
  · split
    · exact herr _ (by decide)
    · exact hok

theorem addWork_leaf : P (addWork f) := by
  unfold addWork
  split
  · exact herr _ (by decide)
  · exact herr _ (by decide)
  · exact herr _ (by decide)
  · exact hok
  · exact ingest_leaf P f hok herr

theorem deleteWork_leaf (hpanic : f.core = .panic → P ⟨0, .noResponse, .none⟩) :
    P (deleteWork f) := by
  unfold deleteWork
  split
  · rename_i h; exact hpanic h
  · split
    · exact herr _ (by decide)
    · exact herr _ (by decide)
  · split
    · exact herr _ (by decide)
    · exact hok

/-- induction principle over the ladder: a predicate that holds of `okResp`, of every error
constant and (where `/delete`'s library work panics) of "no response" holds of every
handler result -/
theorem handler_leaf (e : Endpoint)
    (hpanic : e = .delete → f.payload = .ok → f.inputBad = false → f.idx = .ready →
      f.core = .panic → P ⟨0, .noResponse, .none⟩) :
    P (handler e f) := by
  cases e with
  | healthz => exact hok
  | init =>
    apply jsonExtract_leaf P f hok herr
    split
    · exact herr _ (by decide)
    · unfold blocking
      split
      · exact herr _ (by decide)
      · exact herr _ (by decide)
      · exact hok
  | add => exact requireIndex_leaf P f hok herr _ (addWork_leaf P f hok herr)
  | bulk =>
    apply jsonExtract_leaf P f hok herr
    split
    · exact herr _ (by decide)
    · exact requireIndex_leaf P f hok herr _ (ingest_leaf P f hok herr)
  | delete =>
    show P (jsonExtract f _)
    unfold jsonExtract
    split
    · exact herr _ (by decide)
    · exact herr _ (by decide)
    · rename_i hp
      split
      · exact herr _ (by decide)
      · rename_i hb
        unfold requireIndex
        split
        · rename_i hi
          exact deleteWork_leaf P f hok herr (fun hc => hpanic rfl hp (by simpa using hb) hi hc)
        · exact herr _ (by decide)
        · exact herr _ (by decide)
  | commit =>
    apply requireIndex_leaf P f hok herr
    unfold blocking
    split
    · exact herr _ (by decide)
    · exact herr _ (by decide)
    · exact hok
  | refresh =>
    apply requireIndex_leaf P f hok herr
    unfold blocking
    split
    · exact herr _ (by decide)
    · exact herr _ (by decide)
    · exact hok
  | compact =>
    apply requireIndex_leaf P f hok herr
    unfold blocking
    split
    · exact herr _ (by decide)
    · exact herr _ (by decide)
    · exact hok
  | search =>
    apply jsonExtract_leaf P f hok herr
    split
    · exact herr _ (by decide)
    · apply requireIndex_leaf P f hok herr
      unfold blocking
      split
      · exact herr _ (by decide)
      · exact herr _ (by decide)
      · exact hok
  | inspect => exact requireIndex_leaf P f hok herr _ hok
  | stats => exact requireIndex_leaf P f hok herr _ hok

end ladder

theorem errLeaves_wellFormed : ∀ x ∈ errLeaves, wellFormed x = true := by decide

/-- **C24, shape (partial: everything but a library panic under `/delete`).**  Every request
— routed to a handler, stopped by the body-limit layer, sent to an unknown path or with a
wrong method — gets either a 2xx response with the endpoint's JSON or a non-2xx response
whose body is `{"error":{"type","reason"}}`, for every endpoint and every combination of
facts. -/
theorem respond_wellformed_partial (r : Route) (f : Facts) (hx : excluded r f = false) :
    wellFormed (respond r f) = true := by
  unfold respond
  cases hd : f.declaredOversize with
  | true => simp [wellFormed, errResp]
  | false =>
    simp only [Bool.false_eq_true, if_false]
    cases r with
    | unknownPath => simp [wellFormed, errResp]
    | wrongMethod e => simp [wellFormed, errResp]
    | hit e =>
      apply handler_leaf (fun x => wellFormed x = true) f (by decide) errLeaves_wellFormed e
      intro he hp hb hi hc
      subst he
      simp [excluded, hd, hp, hb, hi, hc] at hx

/-- **C24, shape, full statement for every route other than `/delete`** (no hypothesis on the
facts): unknown paths, wrong methods and all other endpoints, whatever the core does -/
theorem respond_wellformed_routed (r : Route) (f : Facts) (hr : r ≠ .hit .delete) :
    wellFormed (respond r f) = true := by
  apply respond_wellformed_partial
  unfold excluded
  split
  · rfl
  · cases r with
    | unknownPath => rfl
    | wrongMethod e => rfl
    | hit e => cases e <;> first | rfl | exact absurd rfl hr

/-- unknown paths and wrong methods: 404 / 405 with the error body, whatever the facts -/
theorem unrouted_error_body (f : Facts) (hov : f.declaredOversize = false) (e : Endpoint) :
    respond .unknownPath f = errResp 404 .notFound ∧
    respond (.wrongMethod e) f = errResp 405 .methodNotAllowed := by
  simp [respond, hov]

/-- the repair changed nothing else: on registered routes and under the body-limit layer the
repaired and the original service coincide -/
theorem respond_eq_legacy (r : Route) (f : Facts)
    (h : f.declaredOversize = true ∨ ∃ e, r = .hit e) :
    respond r f = respondLegacy r f := by
  unfold respond respondLegacy
  rcases h with h | ⟨e, rfl⟩
  · simp [h]
  · rfl

/-- the facts under which endpoint `e` answers 2xx -/
def happy (e : Endpoint) (f : Facts) : Bool :=
  match e with
  | .healthz => true
  | .init => f.payload == .ok && !f.manifestExists && f.core == .ok
  | .add => f.idx == .ready && (f.addBody == .empty || (f.addBody == .docs && !f.writerErr && f.core == .ok))
  | .bulk => f.payload == .ok && !f.inputBad && f.idx == .ready && !f.writerErr && f.core == .ok
  | .delete => f.payload == .ok && !f.inputBad && f.idx == .ready && !f.writerErr && f.core == .ok
  | .commit | .refresh | .compact => f.idx == .ready && f.core == .ok
  | .search => f.payload == .ok && !f.inputBad && f.idx == .ready && f.core == .ok
  | .inspect | .stats => f.idx == .ready

/-- no failure is ever reported as success and no success as failure: the status is 2xx
exactly when nothing on the handler's path failed -/
theorem success_iff_no_failure (e : Endpoint) (f : Facts) :
    (respond (.hit e) f).status / 100 = 2 ↔ (f.declaredOversize = false ∧ happy e f = true) := by
  obtain ⟨ov, pl, ab, ib, me, ix, we, co⟩ := f
  cases ov
  case true => simp [respond, errResp]
  case false =>
    cases e
    case healthz => simp [respond, handler, happy, okResp]
    case init =>
      cases pl <;> cases me <;> cases co <;>
        simp [respond, handler, happy, jsonExtract, blocking, okResp, errResp, timeoutResp]
    case add =>
      cases ix <;> cases ab <;> cases we <;> cases co <;>
        simp [respond, handler, happy, requireIndex, addWork, ingest, okResp, errResp, timeoutResp]
    case bulk =>
      cases pl <;> cases ib <;> cases ix <;> cases we <;> cases co <;>
        simp [respond, handler, happy, jsonExtract, requireIndex, ingest, okResp, errResp, timeoutResp]
    case delete =>
      cases pl <;> cases ib <;> cases ix <;> cases we <;> cases co <;>
        simp [respond, handler, happy, jsonExtract, requireIndex, deleteWork, okResp, errResp, timeoutResp]
    case commit =>
      cases ix <;> cases co <;>
        simp [respond, handler, happy, requireIndex, blocking, okResp, errResp]
    case refresh =>
      cases ix <;> cases co <;>
        simp [respond, handler, happy, requireIndex, blocking, okResp, errResp]
    case compact =>
      cases ix <;> cases co <;>
        simp [respond, handler, happy, requireIndex, blocking, okResp, errResp]
    case search =>
      cases pl <;> cases ib <;> cases ix <;> cases co <;>
        simp [respond, handler, happy, jsonExtract, requireIndex, blocking, okResp, errResp, timeoutResp]
    case inspect => cases ix <;> simp [respond, handler, happy, requireIndex, okResp, errResp]
    case stats => cases ix <;> simp [respond, handler, happy, requireIndex, okResp, errResp]

/-- **404 when the index is missing**: on every data endpoint, once the checks the code
performs *before* `require_index` pass, a missing index is answered 404 with the error body.
(`/add`, `/commit`, `/refresh`, `/compact`, `/inspect`, `/stats` check the index first;
`/bulk`, `/delete`, `/search` validate the payload first.) -/
theorem missing_index_404 (e : Endpoint) (f : Facts)
    (he : e ≠ .healthz ∧ e ≠ .init) (hov : f.declaredOversize = false) (hm : f.idx = .missing)
    (hpre : (e = .bulk ∨ e = .delete ∨ e = .search) → f.payload = .ok ∧ f.inputBad = false) :
    respond (.hit e) f = errResp 404 .indexMissing := by
  unfold respond
  simp only [hov, Bool.false_eq_true, if_false]
  cases e with
  | healthz => exact absurd rfl he.1
  | init => exact absurd rfl he.2
  | add => simp [handler, requireIndex, hm]
  | commit => simp [handler, requireIndex, hm]
  | refresh => simp [handler, requireIndex, hm]
  | compact => simp [handler, requireIndex, hm]
  | inspect => simp [handler, requireIndex, hm]
  | stats => simp [handler, requireIndex, hm]
  | bulk =>
    obtain ⟨hp, hb⟩ := hpre (Or.inl rfl)
    simp [handler, jsonExtract, requireIndex, hm, hp, hb]
  | delete =>
    obtain ⟨hp, hb⟩ := hpre (Or.inr (Or.inl rfl))
    simp [handler, jsonExtract, requireIndex, hm, hp, hb]
  | search =>
    obtain ⟨hp, hb⟩ := hpre (Or.inr (Or.inr rfl))
    simp [handler, jsonExtract, requireIndex, hm, hp, hb]

/-- **409 for re-initialisation**: a parsable `/init` against an existing manifest -/
theorem reinit_409 (f : Facts) (hov : f.declaredOversize = false) (hp : f.payload = .ok)
    (hm : f.manifestExists = true) :
    respond (.hit .init) f = errResp 409 .indexExists := by
  simp [respond, handler, jsonExtract, hov, hp, hm]

/-- **413 for oversized bodies (partial: declared by `Content-Length`)** — for every route,
even unknown paths, since the body-limit layer sits in front of the router -/
theorem oversize_413_partial (r : Route) (f : Facts) (hov : f.declaredOversize = true) :
    respond r f = errResp 413 .bodyTooLarge := by
  simp [respond, hov]

/-- **4xx for invalid input**: a rejected payload, a failed handler validation, or a bad
NDJSON line / unreadable body gives a 4xx status with the error body (unless the manifest on
disk is unreadable, which `/add` notices first and reports as 500) -/
theorem invalid_input_4xx (e : Endpoint) (f : Facts) (hov : f.declaredOversize = false)
    (hinv :
      ((e = .init ∨ e = .bulk ∨ e = .delete ∨ e = .search) ∧
        ((∃ r, f.payload = .rejected r) ∨ (e ≠ .init ∧ f.payload = .ok ∧ f.inputBad = true))) ∨
      (e = .add ∧ f.idx ≠ .corrupt ∧ (f.addBody = .badLine ∨ f.addBody = .readErr))) :
    400 ≤ (respond (.hit e) f).status ∧ (respond (.hit e) f).status < 500 ∧
    (respond (.hit e) f).shape = .errorJson := by
  unfold respond
  simp only [hov, Bool.false_eq_true, if_false]
  rcases hinv with ⟨he, hbad⟩ | ⟨he, hix, hbody⟩
  · rcases hbad with ⟨r, hr⟩ | ⟨hni, hp, hb⟩
    · rcases he with he | he | he | he <;> subst he <;>
        simp [handler, jsonExtract, hr, errResp]
    · rcases he with he | he | he | he <;> subst he
      · exact absurd rfl hni
      · simp [handler, jsonExtract, hp, hb, errResp]
      · simp [handler, jsonExtract, hp, hb, errResp]
      · simp [handler, jsonExtract, hp, hb, errResp]
  · subst he
    cases hi : f.idx with
    | corrupt => exact absurd hi hix
    | missing => simp [handler, requireIndex, hi, errResp]
    | ready =>
      rcases hbody with hb | hb <;> simp [handler, requireIndex, addWork, hi, hb, errResp]

/-- `parse_json` flattens every extractor rejection to `400 invalid_request`: the status axum
itself attaches to the rejection (415 unsupported media type, 422 unprocessable, 413 length
limit) never reaches the client -/
theorem parse_json_flattens (e : Endpoint) (f : Facts) (r : Rejection)
    (he : e = .init ∨ e = .bulk ∨ e = .delete ∨ e = .search)
    (hov : f.declaredOversize = false) (hp : f.payload = .rejected r) :
    respond (.hit e) f = errResp 400 .invalidRequest := by
  unfold respond
  simp only [hov, Bool.false_eq_true, if_false]
  rcases he with he | he | he | he <;> subst he <;> simp [handler, jsonExtract, hp]

/-- a core error (not a panic) is reported with the error body and the endpoint's status:
400 for search/init/add/bulk/delete, 500 for commit/refresh/compact -/
theorem core_error_status (e : Endpoint) (f : Facts) (hov : f.declaredOversize = false)
    (hp : f.payload = .ok) (hb : f.inputBad = false) (hi : f.idx = .ready)
    (hm : f.manifestExists = false) (ha : f.addBody = .docs) (hw : f.writerErr = false)
    (hc : f.core = .err) (he : e ≠ .healthz ∧ e ≠ .inspect ∧ e ≠ .stats) :
    (respond (.hit e) f).shape = .errorJson ∧
    (respond (.hit e) f).status =
      (if e = .commit ∨ e = .refresh ∨ e = .compact then 500 else 400) := by
  unfold respond
  simp only [hov, Bool.false_eq_true, if_false]
  obtain ⟨h1, h2, h3⟩ := he
  cases e <;>
    simp_all [handler, jsonExtract, requireIndex, blocking, ingest, addWork, deleteWork, errResp]

/-- **500 for a panic in a blocking task (partial: every endpoint but `/delete`)**: the
join error is mapped to 500 with the error body -/
theorem panic_500_partial (e : Endpoint) (f : Facts) (hov : f.declaredOversize = false)
    (hp : f.payload = .ok) (hb : f.inputBad = false) (hi : f.idx = .ready)
    (hm : f.manifestExists = false) (ha : f.addBody = .docs) (hc : f.core = .panic)
    (he : e ≠ .healthz ∧ e ≠ .inspect ∧ e ≠ .stats ∧ e ≠ .delete) :
    (respond (.hit e) f).status = 500 ∧ (respond (.hit e) f).shape = .errorJson ∧
    (respond (.hit e) f).kind ≠ .none := by
  unfold respond
  simp only [hov, Bool.false_eq_true, if_false]
  obtain ⟨h1, h2, h3, h4⟩ := he
  cases e <;>
    simp_all [handler, jsonExtract, requireIndex, blocking, ingest, addWork, errResp]

/-- a stalled body is answered by the timeout layer with 504 and the error body -/
theorem stall_504 (e : Endpoint) (f : Facts) (hov : f.declaredOversize = false)
    (he : (e = .init ∨ e = .bulk ∨ e = .delete ∨ e = .search) ∧ f.payload = .stall ∨
          e = .add ∧ f.idx = .ready ∧ f.addBody = .stall) :
    respond (.hit e) f = timeoutResp := by
  unfold respond
  simp only [hov, Bool.false_eq_true, if_false]
  rcases he with ⟨he, hp⟩ | ⟨he, hi, ha⟩
  · rcases he with he | he | he | he <;> subst he <;> simp [handler, jsonExtract, hp]
  · subst he
    simp [handler, requireIndex, addWork, hi, ha]

/-- the liveness probe does not depend on any server state -/
theorem healthz_ok (f : Facts) (hov : f.declaredOversize = false) :
    respond (.hit .healthz) f = okResp := by
  simp [respond, handler, hov]

/-- only these status codes are ever produced (`0` = no response, `/delete` panic only) -/
theorem status_range (r : Route) (f : Facts) :
    (respond r f).status ∈ [0, 200, 400, 404, 405, 409, 413, 500, 504] := by
  unfold respond
  split
  · decide
  · cases r with
    | unknownPath => simp [errResp]
    | wrongMethod e => simp [errResp]
    | hit e =>
      exact handler_leaf (fun x => x.status ∈ [0, 200, 400, 404, 405, 409, 413, 500, 504]) f
        (by decide) (by decide) e (fun _ _ _ _ _ => by decide)

/-! ### negative witnesses (where the code is, or was before its repair, outside the property) -/

def plain : Facts :=
  { declaredOversize := false, payload := .ok, addBody := .docs, inputBad := false,
    manifestExists := true, idx := .ready, writerErr := false, core := .ok }

/-- before 378f311 — unknown path: 404 with an empty body -/
theorem legacy_witness_unknown_path : wellFormed (respondLegacy .unknownPath plain) = false := by decide

/-- before 378f311 — wrong method on a registered path: 405 with an empty body -/
theorem legacy_witness_wrong_method :
    wellFormed (respondLegacy (.wrongMethod .search) plain) = false := by decide

/-- a body that outgrows the limit while streaming is answered 400, not 413 -/
theorem witness_streamed_oversize_json :
    (respond (.hit .bulk) { plain with payload := .rejected .lengthLimit }).status = 400 := by decide

theorem witness_streamed_oversize_ndjson :
    (respond (.hit .add) { plain with addBody := .readErr }).status = 400 := by decide

/-- a panic under `/delete`: no response at all -/
theorem witness_delete_panic :
    (respond (.hit .delete) { plain with core := .panic }).shape = .noResponse := by decide

/-! ### non-vacuity -/

example : excluded (.hit .search) { plain with core := .panic } = false ∧
    respond (.hit .search) { plain with core := .panic } = errResp 500 .searchJoin := by decide

example : respond .unknownPath plain = errResp 404 .notFound ∧
    respond (.wrongMethod .healthz) plain = errResp 405 .methodNotAllowed := by decide
example : respond (.hit .commit) { plain with idx := .missing } = errResp 404 .indexMissing := by decide
example : respond (.hit .init) plain = errResp 409 .indexExists := by decide
example : respond .unknownPath { plain with declaredOversize := true } = errResp 413 .bodyTooLarge := by decide
example : respond (.hit .search) { plain with payload := .rejected .syntaxError } = errResp 400 .invalidRequest := by decide
example : respond (.hit .add) { plain with addBody := .stall } = timeoutResp := by decide
example : respond (.hit .add) plain = okResp := by decide
example : (respond (.hit .compact) { plain with core := .err }).status = 500 := by decide

end SL.Http
