import SLModel.Core.HttpResp
/-!
# C24 — HTTP requests always get a well-formed response

Statements over the decision ladder `SL.Http.respond` (all endpoints, all fact
combinations; the fact record is finite, the proofs go through the ladder's combinators and
case analysis).  Tie to the code: `Drv/C24` runs `respond` and the harness sends the same
request to a live in-process server and compares status and body shape.

**Claimed as partial.**  "The server never dies / every request is answered" is established
by the live runs only (hyper/axum/tokio are outside the model).  Over the model the shape
statement is now proved at full strength: `respond_wellformed` has no hypothesis.

All five defects found by this check have been repaired in /repo; `respond` models the
repaired service, `respondLegacy` the original one, and the `legacy_witness_*` theorems keep
each original defect as kernel-checked documentation:

* 378f311 — unknown path → `404`, registered path with another method → `405` used to carry an
  **empty** body (`legacy_witness_unknown_path`, `legacy_witness_wrong_method`);
* 771419c — a body that exceeds the limit *while streaming* (chunked, no `Content-Length`) used
  to be answered `400` (`invalid_request` on the JSON endpoints, `read_body` on `/add`) instead
  of `413` (`legacy_witness_streamed_oversize_json`, `legacy_witness_streamed_oversize_ndjson`;
  now `oversize_413` covers the declared and the streamed case);
* c4eccfe — `/delete` was the only write handler outside `spawn_blocking`: a panic of the
  library (reproduced with a storage panic injected through the `searchlite_verif` `FsStorage`
  hook) ended the connection without a response (`legacy_witness_delete_panic`; now
  `panic_500` covers every endpoint).
-/
namespace SL.Http

/-! ### every response is one of finitely many constants -/

/-- all error responses the handlers can produce -/
def errLeaves : List Resp :=
  [timeoutResp, errResp 400 .invalidRequest, errResp 404 .indexMissing, errResp 500 .openIndex,
   errResp 409 .indexExists, errResp 500 .initJoin, errResp 400 .initFailed,
   errResp 400 .readBody, errResp 400 .invalidDocument, errResp 500 .addJoin,
   errResp 500 .writerOpen, errResp 400 .addFailed, errResp 400 .missingOrInvalidInput,
   errResp 400 .deleteFailed, errResp 500 .commitJoin, errResp 500 .commitFailed,
   errResp 500 .refreshJoin, errResp 500 .refreshFailed, errResp 500 .compactJoin,
   errResp 500 .compactFailed, errResp 500 .searchJoin, errResp 400 .searchFailed,
   errResp 400 .invalidLimit, errResp 404 .notFound, errResp 405 .methodNotAllowed,
   errResp 413 .bodyTooLarge, errResp 500 .deleteJoin]

section ladder
set_option linter.unusedSectionVars false
variable (P : Resp → Prop) (f : Facts) (hok : P okResp) (herr : ∀ x ∈ errLeaves, P x)
include hok herr

theorem jsonExtract_leaf (k : Resp) (hk : P k) : P (jsonExtract f k) := by
  unfold jsonExtract
  split
  · exact herr _ (by decide)
  · exact herr _ (by decide)
  · exact herr _ (by decide)
  · exact hk

theorem requireIndex_leaf (k : Resp) (hk : P k) : P (requireIndex f k) := by
  unfold requireIndex
  split
  · exact hk
  · exact herr _ (by decide)
  · exact herr _ (by decide)

theorem ingest_leaf : P (ingest f) := by
  unfold ingest
  split
  · exact herr _ (by decide)
  · split
    · exact herr _ (by decide)
    · exact herr _ (by decide)
  · split
    · exact herr _ (by decide)
    · exact hok

theorem addWork_leaf : P (addWork f) := by
  unfold addWork
  split
  · exact herr _ (by decide)
  · exact herr _ (by decide)
  · exact herr _ (by decide)
  · exact herr _ (by decide)
  · exact hok
  · exact ingest_leaf P f hok herr

theorem deleteWork_leaf : P (deleteWork f) := by
  unfold deleteWork
  split
  · exact herr _ (by decide)
  · split
    · exact herr _ (by decide)
    · exact herr _ (by decide)
  · split
    · exact herr _ (by decide)
    · exact hok

/-- induction principle over the ladder: a predicate that holds of `okResp` and of every error
constant holds of every handler result -/
theorem handler_leaf (e : Endpoint) : P (handler e f) := by
  cases e with
  | healthz => exact hok
  | init =>
    apply jsonExtract_leaf P f hok herr
    split
    · exact herr _ (by decide)
    · unfold blocking
      split
      · exact herr _ (by decide)
      · exact herr _ (by decide)
      · exact hok
  | add => exact requireIndex_leaf P f hok herr _ (addWork_leaf P f hok herr)
  | bulk =>
    apply jsonExtract_leaf P f hok herr
    split
    · exact herr _ (by decide)
    · exact requireIndex_leaf P f hok herr _ (ingest_leaf P f hok herr)
  | delete =>
    apply jsonExtract_leaf P f hok herr
    split
    · exact herr _ (by decide)
    · exact requireIndex_leaf P f hok herr _ (deleteWork_leaf P f hok herr)
  | commit =>
    apply requireIndex_leaf P f hok herr
    unfold blocking
    split
    · exact herr _ (by decide)
    · exact herr _ (by decide)
    · exact hok
  | refresh =>
    apply requireIndex_leaf P f hok herr
    unfold blocking
    split
    · exact herr _ (by decide)
    · exact herr _ (by decide)
    · exact hok
  | compact =>
    apply requireIndex_leaf P f hok herr
    unfold blocking
    split
    · exact herr _ (by decide)
    · exact herr _ (by decide)
    · exact hok
  | search =>
    apply jsonExtract_leaf P f hok herr
    split
    · exact herr _ (by decide)
    · apply requireIndex_leaf P f hok herr
      unfold blocking
      split
      · exact herr _ (by decide)
      · exact herr _ (by decide)
      · exact hok
  | inspect => exact requireIndex_leaf P f hok herr _ hok
  | stats => exact requireIndex_leaf P f hok herr _ hok

end ladder

theorem errLeaves_wellFormed : ∀ x ∈ errLeaves, wellFormed x = true := by decide

/-- **C24, shape — full statement.**  Every request — routed to a handler, stopped by the
body-limit layer, sent to an unknown path or with a wrong method — gets either a 2xx response
with the endpoint's JSON or a non-2xx response whose body is `{"error":{"type","reason"}}`:
for every route, every endpoint and every combination of facts, whatever the core does. -/
theorem respond_wellformed (r : Route) (f : Facts) : wellFormed (respond r f) = true := by
  unfold respond
  cases hd : f.declaredOversize with
  | true => simp [wellFormed, errResp]
  | false =>
    simp only [Bool.false_eq_true, if_false]
    cases r with
    | unknownPath => simp [wellFormed, errResp]
    | wrongMethod e => simp [wellFormed, errResp]
    | hit e => exact handler_leaf (fun x => wellFormed x = true) f (by decide) errLeaves_wellFormed e

/-- in particular a response is always produced (the model's "no response" shape does not
occur any more) -/
theorem respond_answers (r : Route) (f : Facts) : (respond r f).shape ≠ .noResponse := by
  have h := respond_wellformed r f
  intro hs
  unfold wellFormed at h
  rw [hs] at h
  split at h <;> simp at h

/-- unknown paths and wrong methods: 404 / 405 with the error body, whatever the facts -/
theorem unrouted_error_body (f : Facts) (hov : f.declaredOversize = false) (e : Endpoint) :
    respond .unknownPath f = errResp 404 .notFound ∧
    respond (.wrongMethod e) f = errResp 405 .methodNotAllowed := by
  simp [respond, hov]

/-- the repairs changed nothing else: the repaired and the original service coincide unless
the route is unknown / has the wrong method, the body outgrew the limit while streaming, or
the library panics under `/delete` -/
theorem respond_eq_legacy (e : Endpoint) (f : Facts)
    (hp : f.payload ≠ .rejected .lengthLimit) (ha : f.addBody ≠ .limitErr)
    (hd : e = .delete → f.core ≠ .panic) :
    respond (.hit e) f = respondLegacy (.hit e) f := by
  unfold respond respondLegacy
  split
  · rfl
  · obtain ⟨ov, pl, ab, ib, me, ix, we, co⟩ := f
    simp only at hp ha hd
    cases e
    case healthz => rfl
    case commit => rfl
    case refresh => rfl
    case compact => rfl
    case inspect => rfl
    case stats => rfl
    case init =>
      cases pl with
      | rejected r => cases r <;> first | rfl | exact absurd rfl hp
      | _ => rfl
    case bulk =>
      cases pl with
      | rejected r => cases r <;> first | rfl | exact absurd rfl hp
      | _ => rfl
    case search =>
      cases pl with
      | rejected r => cases r <;> first | rfl | exact absurd rfl hp
      | _ => rfl
    case add => cases ab <;> first | rfl | exact absurd rfl ha
    case delete =>
      cases pl with
      | rejected r => cases r <;> first | rfl | exact absurd rfl hp
      | stall => rfl
      | ok =>
        cases ib
        · cases ix
          · cases co
            · rfl
            · rfl
            · exact absurd rfl (hd rfl)
          · rfl
          · rfl
        · rfl

/-- the facts under which endpoint `e` answers 2xx -/
def happy (e : Endpoint) (f : Facts) : Bool :=
  match e with
  | .healthz => true
  | .init => f.payload == .ok && !f.manifestExists && f.core == .ok
  | .add => f.idx == .ready && (f.addBody == .empty || (f.addBody == .docs && !f.writerErr && f.core == .ok))
  | .bulk => f.payload == .ok && !f.inputBad && f.idx == .ready && !f.writerErr && f.core == .ok
  | .delete => f.payload == .ok && !f.inputBad && f.idx == .ready && !f.writerErr && f.core == .ok
  | .commit | .refresh | .compact => f.idx == .ready && f.core == .ok
  | .search => f.payload == .ok && !f.inputBad && f.idx == .ready && f.core == .ok
  | .inspect | .stats => f.idx == .ready

/-- no failure is ever reported as success and no success as failure: the status is 2xx
exactly when nothing on the handler's path failed -/
theorem success_iff_no_failure (e : Endpoint) (f : Facts) :
    (respond (.hit e) f).status / 100 = 2 ↔ (f.declaredOversize = false ∧ happy e f = true) := by
  obtain ⟨ov, pl, ab, ib, me, ix, we, co⟩ := f
  cases ov
  case true => simp [respond, errResp]
  case false =>
    cases e
    case healthz => simp [respond, handler, happy, okResp]
    case init =>
      rcases pl with _ | (_ | _ | _ | _ | _) | _ <;> cases me <;> cases co <;>
        simp [respond, handler, happy, jsonExtract, blocking, okResp, errResp, timeoutResp]
    case add =>
      cases ix <;> cases ab <;> cases we <;> cases co <;>
        simp [respond, handler, happy, requireIndex, addWork, ingest, okResp, errResp, timeoutResp]
    case bulk =>
      rcases pl with _ | (_ | _ | _ | _ | _) | _ <;> cases ib <;> cases ix <;> cases we <;> cases co <;>
        simp [respond, handler, happy, jsonExtract, requireIndex, ingest, okResp, errResp, timeoutResp]
    case delete =>
      rcases pl with _ | (_ | _ | _ | _ | _) | _ <;> cases ib <;> cases ix <;> cases we <;> cases co <;>
        simp [respond, handler, happy, jsonExtract, requireIndex, deleteWork, okResp, errResp, timeoutResp]
    case commit =>
      cases ix <;> cases co <;>
        simp [respond, handler, happy, requireIndex, blocking, okResp, errResp]
    case refresh =>
      cases ix <;> cases co <;>
        simp [respond, handler, happy, requireIndex, blocking, okResp, errResp]
    case compact =>
      cases ix <;> cases co <;>
        simp [respond, handler, happy, requireIndex, blocking, okResp, errResp]
    case search =>
      rcases pl with _ | (_ | _ | _ | _ | _) | _ <;> cases ib <;> cases ix <;> cases co <;>
        simp [respond, handler, happy, jsonExtract, requireIndex, blocking, okResp, errResp, timeoutResp]
    case inspect => cases ix <;> simp [respond, handler, happy, requireIndex, okResp, errResp]
    case stats => cases ix <;> simp [respond, handler, happy, requireIndex, okResp, errResp]

/-- **404 when the index is missing**: on every data endpoint, once the checks the code
performs *before* `require_index` pass, a missing index is answered 404 with the error body.
(`/add`, `/commit`, `/refresh`, `/compact`, `/inspect`, `/stats` check the index first;
`/bulk`, `/delete`, `/search` validate the payload first.) -/
theorem missing_index_404 (e : Endpoint) (f : Facts)
    (he : e ≠ .healthz ∧ e ≠ .init) (hov : f.declaredOversize = false) (hm : f.idx = .missing)
    (hpre : (e = .bulk ∨ e = .delete ∨ e = .search) → f.payload = .ok ∧ f.inputBad = false) :
    respond (.hit e) f = errResp 404 .indexMissing := by
  unfold respond
  simp only [hov, Bool.false_eq_true, if_false]
  cases e with
  | healthz => exact absurd rfl he.1
  | init => exact absurd rfl he.2
  | add => simp [handler, requireIndex, hm]
  | commit => simp [handler, requireIndex, hm]
  | refresh => simp [handler, requireIndex, hm]
  | compact => simp [handler, requireIndex, hm]
  | inspect => simp [handler, requireIndex, hm]
  | stats => simp [handler, requireIndex, hm]
  | bulk =>
    obtain ⟨hp, hb⟩ := hpre (Or.inl rfl)
    simp [handler, jsonExtract, requireIndex, hm, hp, hb]
  | delete =>
    obtain ⟨hp, hb⟩ := hpre (Or.inr (Or.inl rfl))
    simp [handler, jsonExtract, requireIndex, hm, hp, hb]
  | search =>
    obtain ⟨hp, hb⟩ := hpre (Or.inr (Or.inr rfl))
    simp [handler, jsonExtract, requireIndex, hm, hp, hb]

/-- **409 for re-initialisation**: a parsable `/init` against an existing manifest -/
theorem reinit_409 (f : Facts) (hov : f.declaredOversize = false) (hp : f.payload = .ok)
    (hm : f.manifestExists = true) :
    respond (.hit .init) f = errResp 409 .indexExists := by
  simp [respond, handler, jsonExtract, hov, hp, hm]

/-- **413 for oversized bodies — full statement**: declared by `Content-Length` (for every
route, even unknown paths, since the body-limit layer sits in front of the router), or
outgrowing the limit while streaming on an endpoint that reads the body (the JSON extractor's
length-limit rejection; `/add`'s "length limit exceeded" read error once the index is there) -/
theorem oversize_413 (r : Route) (f : Facts)
    (h : f.declaredOversize = true ∨
         (∃ e, r = .hit e ∧ (e = .init ∨ e = .bulk ∨ e = .delete ∨ e = .search) ∧
            f.payload = .rejected .lengthLimit) ∨
         (r = .hit .add ∧ f.idx = .ready ∧ f.addBody = .limitErr)) :
    respond r f = errResp 413 .bodyTooLarge := by
  unfold respond
  cases hov : f.declaredOversize with
  | true => simp
  | false =>
    simp only [Bool.false_eq_true, if_false]
    rcases h with h | ⟨e, rfl, he, hp⟩ | ⟨rfl, hi, ha⟩
    · simp [hov] at h
    · rcases he with he | he | he | he <;> subst he <;> simp [handler, jsonExtract, hp]
    · simp [handler, requireIndex, addWork, hi, ha]

/-- **4xx for invalid input**: a rejected payload, a failed handler validation, or a bad
NDJSON line / unreadable body gives a 4xx status with the error body (unless the manifest on
disk is unreadable, which `/add` notices first and reports as 500) -/
theorem invalid_input_4xx (e : Endpoint) (f : Facts) (hov : f.declaredOversize = false)
    (hinv :
      ((e = .init ∨ e = .bulk ∨ e = .delete ∨ e = .search) ∧
        ((∃ r, f.payload = .rejected r) ∨ (e ≠ .init ∧ f.payload = .ok ∧ f.inputBad = true))) ∨
      (e = .add ∧ f.idx ≠ .corrupt ∧ (f.addBody = .badLine ∨ f.addBody = .readErr))) :
    400 ≤ (respond (.hit e) f).status ∧ (respond (.hit e) f).status < 500 ∧
    (respond (.hit e) f).shape = .errorJson := by
  unfold respond
  simp only [hov, Bool.false_eq_true, if_false]
  rcases hinv with ⟨he, hbad⟩ | ⟨he, hix, hbody⟩
  · rcases hbad with ⟨r, hr⟩ | ⟨hni, hp, hb⟩
    · rcases he with he | he | he | he <;> subst he <;> cases r <;>
        simp [handler, jsonExtract, hr, errResp]
    · rcases he with he | he | he | he <;> subst he
      · exact absurd rfl hni
      · simp [handler, jsonExtract, hp, hb, errResp]
      · simp [handler, jsonExtract, hp, hb, errResp]
      · simp [handler, jsonExtract, hp, hb, errResp]
  · subst he
    cases hi : f.idx with
    | corrupt => exact absurd hi hix
    | missing => simp [handler, requireIndex, hi, errResp]
    | ready =>
      rcases hbody with hb | hb <;> simp [handler, requireIndex, addWork, hi, hb, errResp]

/-- `parse_json`: the extractor's length-limit rejection keeps its 413 (`body_too_large`);
every other rejection is flattened to `400 invalid_request` — axum's own 415 (unsupported
media type) and 422 (unprocessable) never reach the client -/
theorem parse_json_status (e : Endpoint) (f : Facts) (r : Rejection)
    (he : e = .init ∨ e = .bulk ∨ e = .delete ∨ e = .search)
    (hov : f.declaredOversize = false) (hp : f.payload = .rejected r) :
    respond (.hit e) f =
      (if r = .lengthLimit then errResp 413 .bodyTooLarge else errResp 400 .invalidRequest) := by
  unfold respond
  simp only [hov, Bool.false_eq_true, if_false]
  rcases he with he | he | he | he <;> subst he <;> cases r <;> simp [handler, jsonExtract, hp]

/-- a core error (not a panic) is reported with the error body and the endpoint's status:
400 for search/init/add/bulk/delete, 500 for commit/refresh/compact -/
theorem core_error_status (e : Endpoint) (f : Facts) (hov : f.declaredOversize = false)
    (hp : f.payload = .ok) (hb : f.inputBad = false) (hi : f.idx = .ready)
    (hm : f.manifestExists = false) (ha : f.addBody = .docs) (hw : f.writerErr = false)
    (hc : f.core = .err) (he : e ≠ .healthz ∧ e ≠ .inspect ∧ e ≠ .stats) :
    (respond (.hit e) f).shape = .errorJson ∧
    (respond (.hit e) f).status =
      (if e = .commit ∨ e = .refresh ∨ e = .compact then 500 else 400) := by
  unfold respond
  simp only [hov, Bool.false_eq_true, if_false]
  obtain ⟨h1, h2, h3⟩ := he
  cases e <;>
    simp_all [handler, jsonExtract, requireIndex, blocking, ingest, addWork, deleteWork, errResp]

/-- **500 for a panic of the library — full statement**: on every endpoint that calls the
library (all but `/healthz`, `/inspect`, `/stats`) the join error is mapped to 500 with the
error body -/
theorem panic_500 (e : Endpoint) (f : Facts) (hov : f.declaredOversize = false)
    (hp : f.payload = .ok) (hb : f.inputBad = false) (hi : f.idx = .ready)
    (hm : f.manifestExists = false) (ha : f.addBody = .docs) (hc : f.core = .panic)
    (he : e ≠ .healthz ∧ e ≠ .inspect ∧ e ≠ .stats) :
    (respond (.hit e) f).status = 500 ∧ (respond (.hit e) f).shape = .errorJson ∧
    (respond (.hit e) f).kind ≠ .none := by
  unfold respond
  simp only [hov, Bool.false_eq_true, if_false]
  obtain ⟨h1, h2, h3⟩ := he
  cases e <;>
    simp_all [handler, jsonExtract, requireIndex, blocking, ingest, addWork, deleteWork, errResp]

/-- a stalled body is answered by the timeout layer with 504 and the error body -/
theorem stall_504 (e : Endpoint) (f : Facts) (hov : f.declaredOversize = false)
    (he : (e = .init ∨ e = .bulk ∨ e = .delete ∨ e = .search) ∧ f.payload = .stall ∨
          e = .add ∧ f.idx = .ready ∧ f.addBody = .stall) :
    respond (.hit e) f = timeoutResp := by
  unfold respond
  simp only [hov, Bool.false_eq_true, if_false]
  rcases he with ⟨he, hp⟩ | ⟨he, hi, ha⟩
  · rcases he with he | he | he | he <;> subst he <;> simp [handler, jsonExtract, hp]
  · subst he
    simp [handler, requireIndex, addWork, hi, ha]

/-- the liveness probe does not depend on any server state -/
theorem healthz_ok (f : Facts) (hov : f.declaredOversize = false) :
    respond (.hit .healthz) f = okResp := by
  simp [respond, handler, hov]

/-- only these status codes are ever produced -/
theorem status_range (r : Route) (f : Facts) :
    (respond r f).status ∈ [200, 400, 404, 405, 409, 413, 500, 504] := by
  unfold respond
  split
  · decide
  · cases r with
    | unknownPath => simp [errResp]
    | wrongMethod e => simp [errResp]
    | hit e =>
      exact handler_leaf (fun x => x.status ∈ [200, 400, 404, 405, 409, 413, 500, 504]) f
        (by decide) (by decide) e

/-! ### legacy witnesses (the service before its repairs was outside the property here) -/

def plain : Facts :=
  { declaredOversize := false, payload := .ok, addBody := .docs, inputBad := false,
    manifestExists := true, idx := .ready, writerErr := false, core := .ok }

/-- before 378f311 — unknown path: 404 with an empty body -/
theorem legacy_witness_unknown_path : wellFormed (respondLegacy .unknownPath plain) = false := by decide

/-- before 378f311 — wrong method on a registered path: 405 with an empty body -/
theorem legacy_witness_wrong_method :
    wellFormed (respondLegacy (.wrongMethod .search) plain) = false := by decide

/-- before 771419c — a JSON body that outgrows the limit while streaming: 400, not 413 -/
theorem legacy_witness_streamed_oversize_json :
    (respondLegacy (.hit .bulk) { plain with payload := .rejected .lengthLimit }).status = 400 ∧
    (respond (.hit .bulk) { plain with payload := .rejected .lengthLimit }).status = 413 := by decide

/-- before 771419c — an NDJSON body that outgrows the limit while streaming: 400, not 413 -/
theorem legacy_witness_streamed_oversize_ndjson :
    (respondLegacy (.hit .add) { plain with addBody := .limitErr }).status = 400 ∧
    (respond (.hit .add) { plain with addBody := .limitErr }).status = 413 := by decide

/-- before c4eccfe — a panic under `/delete`: no response at all; now 500 with the error body -/
theorem legacy_witness_delete_panic :
    (respondLegacy (.hit .delete) { plain with core := .panic }).shape = .noResponse ∧
    respond (.hit .delete) { plain with core := .panic } = errResp 500 .deleteJoin := by decide

/-! ### non-vacuity -/

example : respond (.hit .search) { plain with core := .panic } = errResp 500 .searchJoin := by decide
example : respond (.hit .add) { plain with addBody := .readErr } = errResp 400 .readBody := by decide

example : respond .unknownPath plain = errResp 404 .notFound ∧
    respond (.wrongMethod .healthz) plain = errResp 405 .methodNotAllowed := by decide
example : respond (.hit .commit) { plain with idx := .missing } = errResp 404 .indexMissing := by decide
example : respond (.hit .init) plain = errResp 409 .indexExists := by decide
example : respond .unknownPath { plain with declaredOversize := true } = errResp 413 .bodyTooLarge := by decide
example : respond (.hit .search) { plain with payload := .rejected .syntaxError } = errResp 400 .invalidRequest := by decide
example : respond (.hit .add) { plain with addBody := .stall } = timeoutResp := by decide
example : respond (.hit .add) plain = okResp := by decide
example : (respond (.hit .compact) { plain with core := .err }).status = 500 := by decide

end SL.Http
