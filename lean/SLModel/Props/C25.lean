import SLModel.Core.Frontend
/-!
# C25 — CLI, HTTP and FFI agree with the Rust API

**Claimed as partial**: the model is thin.  What is proved here, for all inputs:

* *request construction* — the `SearchRequest` the CLI builds from its flags
  (`cli_request_eq`, `cli_flag_defaults`, `cli_request_ok_iff`) and the one the FFI builds from
  its arguments (`ffi_request_eq`, `ffi_request_none_iff`) equal the library request obtained by
  serde-defaulting a JSON request that sets exactly the documented members (`fill`);
  `parse_execution` and `parse_sort` agree with the library's own spelling of the same
  values (`parseExecution_render`, `parseSort_render`);
* *denotation* — over the contents semantics of `Core/Frontend`, a script of front-end
  operations whose documents are all accepted has exactly the effect of the same upserts and
  deletes issued through one library writer with a commit wherever a front-end operation
  commits (`denote_effect`, `script_effect`), hence two scripts — through any mixture of front
  ends — with the same abstract history leave the same contents (`frontends_agree`); the
  front ends' different reactions to a rejected document are pinned down by
  `http_add_invalid_keeps_log` (a rejected HTTP batch changes nothing — the code after 69e89dd;
  `legacy_http_add_invalid_drops_log` documents the whole-log rollback before it),
  `cli_add_invalid_keeps_prefix`, `ffi_add_invalid_noop`.

That the real front ends have these denotations, and that search results coincide, is
established by the harness runs (library vs HTTP vs FFI vs CLI binary), not by proof.
-/
namespace SL.Frontend

/-! ## request construction -/

/-- serde's spelling of `ExecutionStrategy` (`rename_all = "lowercase"`) -/
def renderExec : Exec → Str
  | .bm25 => ['b', 'm', '2', '5']
  | .wand => ['w', 'a', 'n', 'd']
  | .bmw => ['b', 'm', 'w']

/-- `--execution` accepts the library's own names (in any ASCII case, see
`parseExecution_upper`) -/
theorem parseExecution_render (e : Exec) : parseExecution (renderExec e) = e := by
  cases e <;> decide

theorem parseExecution_upper (e : Exec) : parseExecution ((renderExec e).map Char.toUpper) = e := by
  cases e <;> decide

/-- anything else silently means `wand` (the library default) -/
theorem parseExecution_default (v : Str)
    (h1 : lower v ≠ ['b', 'm', '2', '5']) (h2 : lower v ≠ ['b', 'm', 'w']) :
    parseExecution v = .wand := by
  simp [parseExecution, h1, h2]

/-- the members the CLI flags set, as a JSON request would set them -/
def cliPartial {ν J : Type} (a : CliArgs J) (q : String) (sort : List SortSpec)
    (aggs : List (String × J)) : Partial ν J :=
  { query := .str q, limit := a.limit, returnStored := a.returnStored,
    fields := parseFields a.fields, returnHits := some a.returnHits, sort := some sort,
    cursor := a.cursor, execution := some (parseExecution a.execution),
    bmwBlockSize := a.bmwBlockSize, highlightField := a.highlight, aggs := some aggs }

/-- **CLI request = library request with the stated defaults**, for every flag combination
that is accepted -/
theorem cli_request_eq {ν J : Type} (a : CliArgs J) (q : String) (sort : List SortSpec)
    (aggs : List (String × J)) (hq : a.query = some q) (hl : a.limit ≠ 0)
    (hs : parseSort a.sort = .ok sort) (ha : a.aggs.map? = some aggs) :
    (cliRequest a : Except CliErr (Request ν J)) = .ok (fill (cliPartial a q sort aggs)) := by
  simp [cliRequest, hq, hl, hs, ha, fill, cliPartial]

/-- the flag combinations the CLI rejects -/
theorem cli_request_ok_iff {ν J : Type} (a : CliArgs J) :
    (∃ r, (cliRequest a : Except CliErr (Request ν J)) = .ok r) ↔
    (a.query.isSome ∧ a.limit ≠ 0 ∧ (∃ s, parseSort a.sort = .ok s) ∧ a.aggs.map?.isSome) := by
  unfold cliRequest
  cases hq : a.query with
  | none => simp
  | some q =>
    by_cases hl : a.limit = 0
    · simp [hl]
    · cases hs : parseSort a.sort with
      | error o => simp [hl]
      | ok s =>
        cases ha : a.aggs.map? with
        | none => simp [hl]
        | some m => simp [hl]

/-- with only `-q` given, clap's flag defaults (`--limit 10`, `--execution wand`,
`--return-hits true`, nothing else) give the library's minimal request -/
theorem cli_flag_defaults {ν J : Type} (q : String) :
    (cliRequest ({ query := some q } : CliArgs J) : Except CliErr (Request ν J)) =
      .ok (fill { query := .str q, limit := 10, returnStored := false }) := by
  have hs : parseSort none = .ok [] := rfl
  have he : parseExecution ['w', 'a', 'n', 'd'] = .wand := by decide
  simp [cliRequest, hs, he, fill, AggsArg.map?, parseFields]

/-- **FFI request = library request with the stated defaults** (`return_stored` on, query
parsed as a node when it is one) -/
theorem ffi_request_eq {ν J : Type} (parseNode : String → Option ν) (query : String) (limit : Nat)
    (cursor : Option String) (aggs : AggsArg J) (m : List (String × J)) (ha : aggs.map? = some m) :
    ffiRequest parseNode query limit cursor aggs =
      some (fill { query := (match parseNode query with | some n => .node n | none => .str query),
                   limit := limit, returnStored := true, cursor := cursor, aggs := some m }) := by
  cases h : parseNode query <;> simp [ffiRequest, ha, fill, h]

theorem ffi_request_none_iff {ν J : Type} (parseNode : String → Option ν) (query : String)
    (limit : Nat) (cursor : Option String) (aggs : AggsArg J) :
    ffiRequest parseNode query limit cursor aggs = none ↔ aggs = .invalid := by
  cases aggs <;> simp [ffiRequest, AggsArg.map?]

/-- the FFI call for a plain query string is the CLI call `-q … --limit n --return-stored
[--cursor c] [--aggs m]` -/
theorem ffi_eq_cli {ν J : Type} (parseNode : String → Option ν) (query : String) (limit : Nat)
    (cursor : Option String) (aggs : AggsArg J) (hn : parseNode query = none) (hl : limit ≠ 0) :
    (cliRequest { query := some query, limit := limit, returnStored := true,
                  cursor := cursor, aggs := aggs } : Except CliErr (Request ν J)) =
      (match ffiRequest parseNode query limit cursor aggs with
        | some r => .ok r
        | none => .error .badAggs) := by
  have hs : parseSort none = .ok [] := rfl
  have he : parseExecution ['w', 'a', 'n', 'd'] = .wand := by decide
  cases aggs <;> simp [ffiRequest, cliRequest, AggsArg.map?, hn, hl, hs, he, parseFields]

/-! ### `--sort` round trip -/

def renderOrder : Option Order → Str
  | none => []
  | some .asc => [':', 'a', 's', 'c']
  | some .desc => [':', 'd', 'e', 's', 'c']

def renderSpec (s : SortSpec) : Str := s.field ++ renderOrder s.order

/-- `field[:order]` clauses joined by commas -/
def renderSort : List SortSpec → Str
  | [] => []
  | [s] => renderSpec s
  | s :: t :: rest => renderSpec s ++ ',' :: renderSort (t :: rest)

/-- a field name that survives the flag syntax: non-empty, no `,` or `:`, no white space at
either end -/
def cleanField (f : Str) : Prop :=
  f ≠ [] ∧ ',' ∉ f ∧ ':' ∉ f ∧ (∀ c, f.head? = some c → isWs c = false) ∧
  (∀ c, f.reverse.head? = some c → isWs c = false)

theorem splitOn_no_sep (sep : Char) (a : Str) (h : sep ∉ a) : splitOn sep a = [a] := by
  induction a with
  | nil => rfl
  | cons c cs ih =>
    have hc : (c == sep) = false := by
      simp only [List.mem_cons, not_or] at h
      simpa using fun e => h.1 e.symm
    have hcs : sep ∉ cs := fun m => h (List.mem_cons_of_mem _ m)
    simp [splitOn, hc, ih hcs]

theorem splitOn_append (sep : Char) (a b : Str) (h : sep ∉ a) :
    splitOn sep (a ++ sep :: b) = a :: splitOn sep b := by
  induction a with
  | nil => simp [splitOn]
  | cons c cs ih =>
    have hc : (c == sep) = false := by
      simp only [List.mem_cons, not_or] at h
      simpa using fun e => h.1 e.symm
    have hcs : sep ∉ cs := fun m => h (List.mem_cons_of_mem _ m)
    simp [splitOn, hc, ih hcs]

theorem splitFirst_no_sep (sep : Char) (a : Str) (h : sep ∉ a) : splitFirst sep a = (a, none) := by
  induction a with
  | nil => rfl
  | cons c cs ih =>
    have hc : (c == sep) = false := by
      simp only [List.mem_cons, not_or] at h
      simpa using fun e => h.1 e.symm
    have hcs : sep ∉ cs := fun m => h (List.mem_cons_of_mem _ m)
    simp [splitFirst, hc, ih hcs]

theorem splitFirst_append (sep : Char) (a b : Str) (h : sep ∉ a) :
    splitFirst sep (a ++ sep :: b) = (a, some b) := by
  induction a with
  | nil => simp [splitFirst]
  | cons c cs ih =>
    have hc : (c == sep) = false := by
      simp only [List.mem_cons, not_or] at h
      simpa using fun e => h.1 e.symm
    have hcs : sep ∉ cs := fun m => h (List.mem_cons_of_mem _ m)
    simp [splitFirst, hc, ih hcs]

theorem trimStart_id (s : Str) (h : ∀ c, s.head? = some c → isWs c = false) : trimStart s = s := by
  cases s with
  | nil => rfl
  | cons c cs => simp [trimStart, List.dropWhile, h c rfl]

theorem trimEnd_id (s : Str) (h : ∀ c, s.reverse.head? = some c → isWs c = false) : trimEnd s = s := by
  unfold trimEnd
  have h2 : s.reverse.dropWhile isWs = s.reverse := trimStart_id s.reverse h
  rw [h2, List.reverse_reverse]

theorem trim_id (s : Str) (h1 : ∀ c, s.head? = some c → isWs c = false)
    (h2 : ∀ c, s.reverse.head? = some c → isWs c = false) : trim s = s := by
  unfold trim
  rw [trimStart_id s h1, trimEnd_id s h2]

/-- a rendered clause is untouched by `trim`, is not empty, has no comma, and parses back -/
theorem clause_ok (s : SortSpec) (h : cleanField s.field) :
    trim (renderSpec s) = renderSpec s ∧ renderSpec s ≠ [] ∧ ',' ∉ renderSpec s ∧
    parseClause (renderSpec s) = .ok s := by
  obtain ⟨hne, hcomma, hcolon, hhead, hlast⟩ := h
  obtain ⟨field, order⟩ := s
  simp only at hne hcomma hcolon hhead hlast
  cases field with
  | nil => exact absurd rfl hne
  | cons c cs =>
    have hhd : ∀ x, (renderSpec ⟨c :: cs, order⟩).head? = some x → isWs x = false := by
      intro x hx
      apply hhead x
      simpa [renderSpec] using hx
    have hls : ∀ x, (renderSpec ⟨c :: cs, order⟩).reverse.head? = some x → isWs x = false := by
      intro x hx
      cases order with
      | none => apply hlast x; simpa [renderSpec, renderOrder] using hx
      | some o =>
        cases o
        · have : x = 'c' := by
            simp [renderSpec, renderOrder] at hx
            exact hx.symm
          subst this; decide
        · have : x = 'c' := by
            simp [renderSpec, renderOrder] at hx
            exact hx.symm
          subst this; decide
    refine ⟨trim_id _ hhd hls, by simp [renderSpec], ?_, ?_⟩
    · cases order with
      | none => simpa [renderSpec, renderOrder] using hcomma
      | some o =>
        cases o <;>
          · simp only [renderSpec, renderOrder, List.mem_append, not_or]
            exact ⟨hcomma, by decide⟩
    · cases order with
      | none =>
        have := splitFirst_no_sep ':' (c :: cs) hcolon
        simp [parseClause, renderSpec, renderOrder, this]
      | some o =>
        cases o
        · have := splitFirst_append ':' (c :: cs) ['a', 's', 'c'] hcolon
          have hl : lower ['a', 's', 'c'] = ['a', 's', 'c'] := by decide
          simp only [renderSpec, renderOrder, parseClause, this]
          simp [hl]
        · have := splitFirst_append ':' (c :: cs) ['d', 'e', 's', 'c'] hcolon
          have hl : lower ['d', 'e', 's', 'c'] = ['d', 'e', 's', 'c'] := by decide
          have hne2 : (['d', 'e', 's', 'c'] : Str) ≠ ['a', 's', 'c'] := by decide
          simp only [renderSpec, renderOrder, parseClause, this]
          simp [hl, hne2]

/-- **`parse_sort` reads back the library's sort list**: rendering a `Vec<SortSpec>` in the
flag syntax and parsing it gives the same list, for all clean field names -/
theorem parseSort_render (specs : List SortSpec) (h : ∀ s ∈ specs, cleanField s.field) :
    parseSort (some (renderSort specs)) = .ok specs := by
  unfold parseSort
  induction specs with
  | nil => simp [renderSort, splitOn, parseClauses, trim, trimStart, trimEnd]
  | cons s rest ih =>
    obtain ⟨ht, hne, hcomma, hp⟩ := clause_ok s (h s (List.mem_cons_self))
    cases rest with
    | nil =>
      simp only [renderSort]
      rw [splitOn_no_sep ',' _ hcomma]
      simp [parseClauses, ht, hne, hp]
    | cons t rest' =>
      have ih' := ih (fun x hx => h x (List.mem_cons_of_mem _ hx))
      simp only [renderSort] at ih' ⊢
      rw [splitOn_append ',' _ _ hcomma]
      simp only [parseClauses, ht, hne, if_false, hp]
      rw [ih']

/-! ## denotation -/

section contents
variable {κ δ : Type} [DecidableEq κ] (idOf : δ → Option κ)

/-- log entries an operation contributes when all its documents are accepted -/
def putsOf (docs : List δ) : List (LogOp κ δ) :=
  docs.filterMap fun d => (idOf d).map fun id => .put id d

def logOf : FrontOp κ δ → List (LogOp κ δ)
  | .cliAdd docs | .cliUpdate docs | .httpAdd docs | .httpBulk docs => putsOf idOf docs
  | .ffiAdd d => putsOf idOf [d]
  | .cliDelete ids | .httpDelete ids => ids.map .del
  | _ => []

/-- the operations that commit -/
def commits : FrontOp κ δ → Bool
  | .cliCommit | .httpCommit _ | .ffiAdd _ | .ffiCommit => true
  | _ => false

def docsOf : FrontOp κ δ → List δ
  | .cliAdd docs | .cliUpdate docs | .httpAdd docs | .httpBulk docs => docs
  | .ffiAdd d => [d]
  | _ => []

/-- every document of the operation is accepted by `add_document` -/
def allValid (op : FrontOp κ δ) : Prop := ∀ d ∈ docsOf op, (idOf d).isSome

/-- the same history through one library writer: append to the log, commit where the
front-end operation commits -/
def refStep (s : St κ δ) (op : FrontOp κ δ) : St κ δ :=
  if commits op then ⟨applyLog (s.log ++ logOf idOf op) s.committed, [], false⟩
  else ⟨s.committed, s.log ++ logOf idOf op, false⟩

theorem run_append (s : St κ δ) (a b : List (LibOp κ δ)) :
    run idOf s (a ++ b) = run idOf (run idOf s a) b := by
  simp [run, List.foldl_append]

/-- accepted adds only extend the log -/
theorem run_adds_valid (docs : List δ) (s : St κ δ) (hf : s.failed = false)
    (hv : ∀ d ∈ docs, (idOf d).isSome) :
    run idOf s (docs.map .add) = { s with log := s.log ++ putsOf idOf docs } := by
  induction docs generalizing s with
  | nil => simp [run, putsOf]
  | cons d ds ih =>
    obtain ⟨id, hid⟩ := Option.isSome_iff_exists.mp (hv d (List.mem_cons_self))
    have hstep : step idOf s (.add d) = { s with log := s.log ++ [.put id d] } := by
      simp [step, hf, hid]
    have := ih { s with log := s.log ++ [.put id d] } hf (fun x hx => hv x (List.mem_cons_of_mem _ hx))
    simp only [List.map_cons, run, List.foldl_cons, hstep] at this ⊢
    rw [this]
    simp [putsOf, hid]

/-- after a rejected add the rest of the session's adds do nothing -/
theorem run_adds_failed (docs : List δ) (s : St κ δ) (hf : s.failed = true) :
    run idOf s (docs.map .add) = s := by
  induction docs with
  | nil => rfl
  | cons d ds ih =>
    have : step idOf s (.add d) = s := by simp [step, hf]
    simpa [run, List.foldl_cons, this] using ih

/-- `add_documents` with every document accepted = the adds one by one -/
theorem step_addBatch_valid (docs : List δ) (s : St κ δ) (hf : s.failed = false)
    (hv : ∀ d ∈ docs, (idOf d).isSome) :
    step idOf s (.addBatch docs) = { s with log := s.log ++ putsOf idOf docs } := by
  have hall : docs.all (fun d => (idOf d).isSome) = true := by
    simpa [List.all_eq_true] using hv
  simp [step, hf, hall, putsOf]

/-- `add_documents` with a rejected document queues nothing -/
theorem step_addBatch_invalid (docs : List δ) (d : δ) (s : St κ δ) (hf : s.failed = false)
    (hd : d ∈ docs) (hn : idOf d = none) :
    step idOf s (.addBatch docs) = { s with failed := true } := by
  have hall : docs.all (fun d => (idOf d).isSome) = false := by
    rw [Bool.eq_false_iff]
    intro h
    have := (List.all_eq_true.mp h) d hd
    simp [hn] at this
  simp [step, hf, hall]

/-- **denotation, accepted documents**: the library calls of one front-end operation have
exactly the effect "append its upserts/deletes to the log, then commit if it commits" -/
theorem denote_effect (op : FrontOp κ δ) (s : St κ δ) (hf : s.failed = false)
    (hv : allValid idOf op) :
    run idOf s (denote op) = refStep idOf s op := by
  obtain ⟨c, l, f⟩ := s
  simp only at hf
  subst hf
  cases op with
  | cliInit => simp [denote, run, step, refStep, commits, logOf]
  | cliCompact => simp [denote, run, step, refStep, commits, logOf]
  | httpInit => simp [denote, run, step, refStep, commits, logOf]
  | httpCompact => simp [denote, run, step, refStep, commits, logOf]
  | httpRefresh => simp [denote, run, step, refStep, commits, logOf]
  | ffiOpen => simp [denote, run, step, refStep, commits, logOf]
  | cliCommit => simp [denote, run, step, refStep, commits, logOf]
  | ffiCommit => simp [denote, run, step, refStep, commits, logOf]
  | httpCommit r => cases r <;> simp [denote, run, step, refStep, commits, logOf]
  | cliDelete ids => simp [denote, run, step, refStep, commits, logOf]
  | httpDelete ids => simp [denote, run, step, refStep, commits, logOf]
  | cliAdd docs =>
    have h := run_adds_valid idOf docs ⟨c, l, false⟩ rfl hv
    simp only [denote, List.append_assoc, run_append]
    simp only [run, List.foldl_cons, List.foldl_nil, step] at h ⊢
    rw [h]
    simp [refStep, commits, logOf]
  | cliUpdate docs =>
    have h := run_adds_valid idOf docs ⟨c, l, false⟩ rfl hv
    simp only [denote, List.append_assoc, run_append]
    simp only [run, List.foldl_cons, List.foldl_nil, step] at h ⊢
    rw [h]
    simp [refStep, commits, logOf]
  | httpBulk docs =>
    have h := step_addBatch_valid idOf docs ⟨c, l, false⟩ rfl hv
    simp only [denote, run, List.foldl_cons, List.foldl_nil]
    have h0 : step idOf ⟨c, l, false⟩ .newWriter = ⟨c, l, false⟩ := rfl
    rw [h0, h]
    simp [step, refStep, commits, logOf]
  | httpAdd docs =>
    cases docs with
    | nil => simp [denote, run, refStep, commits, logOf, putsOf]
    | cons d ds =>
      have h := step_addBatch_valid idOf (d :: ds) ⟨c, l, false⟩ rfl hv
      simp only [denote, List.isEmpty_cons, Bool.false_eq_true, if_false, run, List.foldl_cons,
        List.foldl_nil]
      have h0 : step idOf ⟨c, l, false⟩ .newWriter = ⟨c, l, false⟩ := rfl
      rw [h0, h]
      simp [step, refStep, commits, logOf]
  | ffiAdd d =>
    obtain ⟨id, hid⟩ := Option.isSome_iff_exists.mp (hv d (by simp [docsOf]))
    simp [denote, run, step, refStep, commits, logOf, putsOf, hid]

theorem refStep_failed (s : St κ δ) (op : FrontOp κ δ) : (refStep idOf s op).failed = false := by
  unfold refStep; split <;> rfl

/-- **a whole script = the same history through the library** -/
theorem script_effect (script : List (FrontOp κ δ)) (s : St κ δ) (hf : s.failed = false)
    (hv : ∀ op ∈ script, allValid idOf op) :
    runFront idOf s script = script.foldl (refStep idOf) s := by
  induction script generalizing s with
  | nil => rfl
  | cons op rest ih =>
    have h1 := denote_effect idOf op s hf (hv op (List.mem_cons_self))
    simp only [runFront, List.foldl_cons] at ih ⊢
    rw [h1]
    exact ih (refStep idOf s op) (refStep_failed idOf s op) (fun o ho => hv o (List.mem_cons_of_mem _ ho))

/-- **the front ends agree**: two scripts — CLI, HTTP, FFI or any mixture — that carry the
same upserts/deletes with commits at the same places leave the same committed contents and
the same pending log -/
theorem frontends_agree (a b : List (FrontOp κ δ)) (s : St κ δ) (hf : s.failed = false)
    (ha : ∀ op ∈ a, allValid idOf op) (hb : ∀ op ∈ b, allValid idOf op)
    (h : a.map (fun op => (logOf idOf op, commits op)) = b.map (fun op => (logOf idOf op, commits op))) :
    runFront idOf s a = runFront idOf s b := by
  rw [script_effect idOf a s hf ha, script_effect idOf b s hf hb]
  have key : ∀ (x : List (FrontOp κ δ)) (t : St κ δ),
      x.foldl (refStep idOf) t =
        (x.map (fun op => (logOf idOf op, commits op))).foldl
          (fun (t : St κ δ) (p : List (LogOp κ δ) × Bool) =>
            if p.2 then ⟨applyLog (t.log ++ p.1) t.committed, [], false⟩
            else ⟨t.committed, t.log ++ p.1, false⟩) t := by
    intro x
    induction x with
    | nil => intro t; rfl
    | cons op rest ih => intro t; simp only [List.foldl_cons, List.map_cons]; rw [ih]; rfl
  rw [key a s, key b s, h]

/-! ### a rejected document: the front ends differ, as their code does -/

theorem run_adds_split (pre post : List δ) (d : δ) (s : St κ δ) (hf : s.failed = false)
    (hpre : ∀ x ∈ pre, (idOf x).isSome) (hd : idOf d = none) :
    run idOf s ((pre ++ d :: post).map .add) =
      { s with log := s.log ++ putsOf idOf pre, failed := true } := by
  rw [List.map_append, run_append, run_adds_valid idOf pre s hf hpre]
  simp only [List.map_cons, run, List.foldl_cons]
  have : step idOf { s with log := s.log ++ putsOf idOf pre } (.add d) =
      { s with log := s.log ++ putsOf idOf pre, failed := true } := by
    simp [step, hf, hd]
  rw [this]
  exact run_adds_failed idOf post _ rfl

/-- **HTTP `/add`, `/bulk` (after 69e89dd): a rejected batch leaves the state unchanged** —
nothing of the batch is queued and what earlier requests had queued stays queued -/
theorem http_add_invalid_keeps_log (pre post : List δ) (d : δ) (s : St κ δ) (hd : idOf d = none) :
    run idOf s (denote (.httpBulk (pre ++ d :: post))) = ⟨s.committed, s.log, false⟩ ∧
    run idOf s (denote (.httpAdd (pre ++ d :: post))) = ⟨s.committed, s.log, false⟩ := by
  have hmem : d ∈ pre ++ d :: post := by simp
  have h := step_addBatch_invalid idOf (pre ++ d :: post) d { s with failed := false } rfl hmem hd
  have hne : (pre ++ d :: post).isEmpty = false := by cases pre <;> rfl
  constructor
  · simp only [denote, run, List.foldl_cons, List.foldl_nil]
    have h0 : step idOf s .newWriter = { s with failed := false } := rfl
    rw [h0, h]
    rfl
  · simp only [denote, hne, Bool.false_eq_true, if_false, run, List.foldl_cons, List.foldl_nil]
    have h0 : step idOf s .newWriter = { s with failed := false } := rfl
    rw [h0, h]
    rfl

/-- before 69e89dd — HTTP `/add`, `/bulk`: one rejected document rolled back the *whole*
pending log, including what earlier requests had queued (the mechanism behind C23's finding) -/
theorem legacy_http_add_invalid_drops_log (pre post : List δ) (d : δ) (s : St κ δ)
    (hpre : ∀ x ∈ pre, (idOf x).isSome) (hd : idOf d = none) :
    run idOf s (denoteLegacy (.httpBulk (pre ++ d :: post))) = ⟨s.committed, [], false⟩ ∧
    run idOf s (denoteLegacy (.httpAdd (pre ++ d :: post))) = ⟨s.committed, [], false⟩ := by
  have h := run_adds_split idOf pre post d { s with failed := false } rfl hpre hd
  have hne : (pre ++ d :: post).isEmpty = false := by cases pre <;> rfl
  constructor
  · simp only [denoteLegacy, List.append_assoc, run_append]
    simp only [run, List.foldl_cons, List.foldl_nil, step] at h ⊢
    rw [h]
    simp
  · simp only [denoteLegacy, hne, Bool.false_eq_true, if_false, List.append_assoc, run_append]
    simp only [run, List.foldl_cons, List.foldl_nil, step] at h ⊢
    rw [h]
    simp

omit [DecidableEq κ] in
/-- the legacy denotation differs from the current one on HTTP add/bulk only -/
theorem denoteLegacy_eq (op : FrontOp κ δ)
    (h : ∀ docs, op ≠ .httpAdd docs ∧ op ≠ .httpBulk docs) : denoteLegacy op = denote op := by
  cases op <;> first | rfl | (rename_i docs; exact absurd rfl (h docs).1) | (rename_i docs; exact absurd rfl (h docs).2)

/-- CLI `add`: the documents before the rejected one stay queued -/
theorem cli_add_invalid_keeps_prefix (pre post : List δ) (d : δ) (s : St κ δ)
    (hpre : ∀ x ∈ pre, (idOf x).isSome) (hd : idOf d = none) :
    run idOf s (denote (.cliAdd (pre ++ d :: post))) =
      ⟨s.committed, s.log ++ putsOf idOf pre, false⟩ := by
  have h := run_adds_split idOf pre post d { s with failed := false } rfl hpre hd
  simp only [denote, List.append_assoc, run_append]
  simp only [run, List.foldl_cons, List.foldl_nil, step] at h ⊢
  rw [h]

/-- FFI `searchlite_add_json`: a rejected document changes nothing and nothing is committed -/
theorem ffi_add_invalid_noop (d : δ) (s : St κ δ) (hf : s.failed = false) (hd : idOf d = none) :
    run idOf s (denote (.ffiAdd d)) = s := by
  obtain ⟨c, l, f⟩ := s
  simp only at hf
  subst hf
  simp [denote, run, step, hd]

end contents

/-! ### non-vacuity (ids and documents are numbers; document `0` is rejected) -/

def idOfNat (d : Nat) : Option Nat := if d = 0 then none else some (d % 10)

/-- the same history through the CLI, the HTTP service and the FFI -/
example :
    let s0 : St Nat Nat := ⟨[], [], false⟩
    let cli := [FrontOp.cliInit, .cliAdd [11, 12], .cliCommit, .cliAdd [21], .cliCommit]
    let http := [FrontOp.httpInit, .httpBulk [11, 12], .httpCommit false, .httpAdd [21], .httpCommit true]
    runFront idOfNat s0 cli = runFront idOfNat s0 http ∧
    (runFront idOfNat s0 cli).committed = [(1, 21), (2, 12)] ∧
    runFront idOfNat s0 [FrontOp.ffiOpen, .ffiAdd 11, .ffiAdd 12, .ffiAdd 21] = runFront idOfNat s0 cli := by
  decide

example :
    run idOfNat (⟨[], [.put 5 15], false⟩ : St Nat Nat) (denote (.httpBulk [11, 0, 12])) = ⟨[], [.put 5 15], false⟩ ∧
    run idOfNat (⟨[], [.put 5 15], false⟩ : St Nat Nat) (denoteLegacy (.httpBulk [11, 0, 12])) = ⟨[], [], false⟩ ∧
    run idOfNat (⟨[], [.put 5 15], false⟩ : St Nat Nat) (denote (.cliAdd [11, 0, 12])) =
      ⟨[], [.put 5 15, .put 1 11], false⟩ := by
  decide

example : parseSort (some ['y', 'e', 'a', 'r', ':', 'D', 'E', 'S', 'C', ',', ' ', 'i', 'd']) =
    .ok [⟨['y', 'e', 'a', 'r'], some .desc⟩, ⟨['i', 'd'], none⟩] := by rfl

example : parseSort (some ['y', ':', 'u', 'p']) = .error ['u', 'p'] := by rfl

example : (cliRequest ({ query := some "q", limit := 0 } : CliArgs Nat) : Except CliErr (Request Nat Nat)) =
    .error .limitZero := rfl

end SL.Frontend
