import SLModel.Core.Ffi
/-!
# C26 — the C search entry point stays within the caller's buffer

All statements quantify over *every* response byte string, capacity and argument
combination.  Tie to the code: `Drv/C26` runs `SL.Ffi.search` and the harness runs the real
`searchlite_search` with a guard-byte-surrounded buffer for every capacity.
-/
namespace SL.Ffi

/-- the argument combinations on which the ladder bails out before touching the buffer -/
def bails (a : Args) : Bool :=
  a.handleNull || a.queryNull || a.readerErr || a.aggsBad || a.searchErr || a.bufNull || a.cap == 0

theorem search_eq (a : Args) (resp : List UInt8) :
    search a resp = if bails a then ⟨[], 0⟩ else copyOut resp a.cap := by
  unfold search bails
  cases a.handleNull <;> cases a.queryNull <;> cases a.readerErr <;> cases a.aggsBad <;>
    cases a.searchErr <;> cases a.bufNull <;> cases (a.cap == 0) <;> rfl

/-- at most `cap` bytes are written, NUL included -/
theorem written_le_cap (a : Args) (resp : List UInt8) :
    (search a resp).written.length ≤ a.cap := by
  rw [search_eq]
  split
  · simp
  · rename_i h
    have hc : a.cap ≠ 0 := by
      intro h0; apply h; simp [bails, h0]
    simp [copyOut, copyLen, List.length_take]
    omega

/-- if anything is written, it ends with the terminating NUL, the return value is the number
of bytes before it, and those bytes are a prefix of the full response -/
theorem nul_terminated_prefix (a : Args) (resp : List UInt8)
    (hw : (search a resp).written ≠ []) :
    (search a resp).written = resp.take (search a resp).ret ++ [0] ∧
    (search a resp).ret ≤ resp.length ∧ (search a resp).ret + 1 ≤ a.cap ∧
    (search a resp).ret = min resp.length (a.cap - 1) := by
  rw [search_eq] at hw ⊢
  split at hw
  · simp at hw
  · rename_i h
    have hc : a.cap ≠ 0 := by
      intro h0; apply h; simp [bails, h0]
    simp only [h]
    simp [copyOut, copyLen]
    omega

/-- prefix property, stated with `<+:` -/
theorem prefix_of_response (a : Args) (resp : List UInt8) :
    (search a resp).written.dropLast <+: resp := by
  rw [search_eq]
  split
  · simp
  · simp [copyOut, List.take_prefix]

/-- null or invalid arguments: nothing is written and the status is zero -/
theorem null_args_zero (a : Args) (resp : List UInt8)
    (h : a.handleNull = true ∨ a.queryNull = true ∨ a.bufNull = true ∨ a.cap = 0 ∨
         a.aggsBad = true ∨ a.searchErr = true ∨ a.readerErr = true) :
    search a resp = ⟨[], 0⟩ := by
  rw [search_eq]
  have : bails a = true := by
    unfold bails
    rcases h with h | h | h | h | h | h | h <;> simp [h]
  simp [this]

/-- a successful call with room for the whole response returns all of it -/
theorem whole_when_fits (a : Args) (resp : List UInt8)
    (hok : bails a = false) (hcap : resp.length < a.cap) :
    search a resp = ⟨resp ++ [0], resp.length⟩ := by
  rw [search_eq]
  have hl : min resp.length (a.cap - 1) = resp.length := by omega
  simp [hok, copyOut, copyLen, hl]

/-- 64-bit words: the index of the NUL write never reaches `cap` and `len + 1` does not wrap -/
theorem copyLen64_lt_cap (respLen cap : UInt64) (hc : cap ≠ 0) :
    (copyLen64 respLen cap).toNat + 1 ≤ cap.toNat ∧
    (copyLen64 respLen cap).toNat = min respLen.toNat (cap.toNat - 1) := by
  have hc' : cap.toNat ≠ 0 := by
    intro h; apply hc; exact UInt64.toNat_inj.mp (by simpa using h)
  have h1 : (cap - 1).toNat = cap.toNat - 1 := by
    rw [UInt64.toNat_sub_of_le] <;> simp [UInt64.le_iff_toNat_le] <;> omega
  unfold copyLen64
  simp only [hc, if_false]
  split
  · rename_i h
    rw [UInt64.le_iff_toNat_le, h1] at h
    omega
  · rename_i h
    rw [UInt64.le_iff_toNat_le, h1] at h
    omega

/-- non-vacuity: a concrete call that truncates -/
example : search ⟨false, false, false, false, false, false, 3⟩ [104, 105, 33, 33] = ⟨[104, 105, 0], 2⟩ := by
  decide

example : search ⟨false, false, false, false, false, false, 0⟩ [104] = ⟨[], 0⟩ := by decide

end SL.Ffi
