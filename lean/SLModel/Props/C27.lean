import SLModel.Core.Idb
import SLModel.Lemmas.Idb
/-!
# C27 — browser persistence survives a reload at any moment

Model: `Core/Idb` (persistence queue with coalescing, one IndexedDB transaction per persisted
file, request success and transaction completion as separate browser events, `JsFile`
scheduling, the page's program, recovery of a stored image).

The property as stated — *for every ordering of the persistence tasks and IndexedDB events
and every moment of closing the page, the stored image reopens to the contents of a commit
that had started, and every commit whose promise resolved is included* — is the statement

```
theorem close_any_time (cs : List Commit) (hwf : WfCommits cs) (ls : List PLabel) (s : PSt)
    (h : pexec (initP cs false) ls = some s) : CloseOk cs s
```

about the code as it exists (`initP cs false`: `blockOf`, `awaitComplete = false`).  It is
**false**; the negative witnesses `close_any_time_neg` (a manifest becomes durable before a
segment file it names: the image does not reopen) and `resolved_commit_lost_neg` (the commit
promise resolves on the request's `success`, the transaction has not completed: the image
reopens to the previous commit) are proved below by `decide`.  What is proved instead:

* `store_eq_replay` — the stored image is the replay of the completed transactions;
* `ordered_prefix_recoverable`, `close_any_time_partial` — under the explicit, decidable
  ordering hypothesis `ordered` (every manifest completes after the files it names; it holds
  for the specified IndexedDB transaction order, and is evaluated on the real completion
  logs by the harness) no close image is partial, for every interleaving and close point;
* `resolved_succeeded` — what `flush` really guarantees: a resolved receiver's path has a
  snapshot at least as new whose put request *succeeded* (durable only under `awaitComplete`);
* `close_never_partial_repaired` — the repaired protocol (`blockRepaired`: the files a
  manifest names are awaited before the manifest is scheduled; `awaitComplete`: waiters are
  notified on transaction completion) never leaves a partial image, for every interleaving
  and close point.
-/
namespace SL.Idb

/-! ## the stored image is the replay of the completion log -/

theorem step_store_replay {σ σ' : St} {l : Label} (h : step σ l = some σ')
    (inv : σ.store = replay σ.done) : σ'.store = replay σ'.done := by
  cases l with
  | sched p d => simp [step] at h; subst h; simpa using inv
  | schedDel p => simp [step, doSchedDel] at h; subst h; simpa using inv
  | flushTake => simp [step] at h; subst h; simpa using inv
  | run t =>
    simp only [step, doRun] at h
    split at h
    · simp at h; subst h; simpa using inv
    · simp at h; subst h; simpa using inv
    · simp at h; subst h; simpa using inv
    · simp at h; subst h; simpa using inv
    · simp at h
  | succ t =>
    simp only [step, doSucc] at h
    split at h
    · simp at h
    · split at h
      · simp at h
      · simp at h; subst h; simpa using inv
  | complete t =>
    simp only [step, doComplete] at h
    split at h
    · simp at h
    · split at h
      · simp at h
      · simp at h; subst h
        simp [replay_append, inv]

theorem exec_store_replay {σ σ' : St} {ls : List Label} (h : exec σ ls = some σ')
    (inv : σ.store = replay σ.done) : σ'.store = replay σ'.done := by
  induction ls generalizing σ with
  | nil => simp [exec] at h; subst h; exact inv
  | cons l ls ih =>
    simp only [exec] at h
    split at h
    · simp at h
    · rename_i σ1 h1
      exact ih h (step_store_replay h1 inv)

/-- the durable store is exactly what the completed transactions wrote, in completion order -/
theorem store_eq_replay (ac : Bool) (ls : List Label) (σ : St)
    (h : exec { awaitComplete := ac } ls = some σ) : σ.store = replay σ.done :=
  exec_store_replay h rfl

theorem pstep_store_replay {s s' : PSt} {l : PLabel} (h : pstep s l = some s')
    (inv : s.q.store = replay s.q.done) : s'.q.store = replay s'.q.done := by
  cases l with
  | prog =>
    simp only [pstep, progStep] at h
    split at h
    · split at h
      · simp at h; subst h; exact inv
      · simp at h
    · split at h
      · simp at h; subst h; simpa using inv
      · simp at h; subst h; exact inv
      · split at h
        · simp at h
        · simp at h; subst h; exact inv
  | adv l =>
    simp only [pstep] at h
    split at h
    · split at h
      · rename_i q' hq
        simp at h; subst h
        exact step_store_replay hq inv
      · simp at h
    · simp at h

theorem pexec_store_replay {s s' : PSt} {ls : List PLabel} (h : pexec s ls = some s')
    (inv : s.q.store = replay s.q.done) : s'.q.store = replay s'.q.done := by
  induction ls generalizing s with
  | nil => simp [pexec] at h; subst h; exact inv
  | cons l ls ih =>
    simp only [pexec] at h
    split at h
    · simp at h
    · rename_i s1 h1
      exact ih h (pstep_store_replay h1 inv)

/-! ## the ordering monitor: `ordered` ⇒ no prefix of the completion log is a partial image -/

/-- segment files never live at the manifest's path -/
def WfCommits (cs : List Commit) : Prop :=
  ∀ c ∈ cs, ∀ f ∈ c.files, f.1 ≠ manifestPath

instance (cs : List Commit) : Decidable (WfCommits cs) := by
  unfold WfCommits; infer_instance

theorem filesPresent_congr {s s' : List (Path × Ver)} {fs : List (Path × Data)}
    (h : ∀ f ∈ fs, aget f.1 s' = aget f.1 s) : filesPresent s' fs = filesPresent s fs := by
  unfold filesPresent
  apply all_congr_mem
  intro f hf
  rw [h f hf]

/-- `recover ≠ broken`, spelled out -/
def Openable (cs : List Commit) (s : List (Path × Ver)) : Prop :=
  ∀ v, aget manifestPath s = some v →
    ∃ k, findManifest v.data cs = some k ∧ (cs.take (k + 1)).all (fun c => filesPresent s c.files) = true

theorem openable_iff (cs : List Commit) (s : List (Path × Ver)) :
    Openable cs s ↔ recover cs s ≠ Rec.broken := by
  unfold Openable recover
  cases hm : aget manifestPath s with
  | none => simp
  | some v =>
    cases hk : findManifest v.data cs with
    | none => simp [hk]
    | some k =>
      by_cases hall : (cs.take (k + 1)).all (fun c => filesPresent s c.files) = true
      · simp only [hk, hall, if_true]
        constructor
        · intro _; simp
        · intro _ v' hv'; cases hv'; exact ⟨k, hk, hall⟩
      · simp only [hk, hall]
        constructor
        · intro h
          obtain ⟨k', hk', hall'⟩ := h v rfl
          rw [hk] at hk'
          cases hk'
          exact absurd hall' hall
        · intro h; simp at h

theorem openable_step (cs : List Commit) (hwf : WfCommits cs) (s : List (Path × Ver)) (o : Op)
    (hs : Openable cs s) (hok : orderedFrom cs s [o] = true) : Openable cs (applyOp s o) := by
  simp only [orderedFrom, Bool.and_true] at hok
  cases o with
  | put p v =>
    by_cases hp : p = manifestPath
    · subst hp
      simp only [if_true] at hok
      intro v' hv'
      simp only [applyOp, aget_aset_eq] at hv'
      cases hv'
      cases hk : findManifest v.data cs with
      | none => simp [hk] at hok
      | some k =>
        simp only [hk] at hok
        refine ⟨k, rfl, ?_⟩
        rw [← hok]
        apply all_congr_mem
        intro c hc
        apply filesPresent_congr
        intro f hf
        exact aget_aset_ne (hwf c (List.mem_of_mem_take hc) f hf) _ _
    · simp only [hp, if_false] at hok
      intro m hm
      simp only [applyOp] at hm
      rw [aget_aset_ne (Ne.symm hp)] at hm
      obtain ⟨k, hk, hall⟩ := hs m hm
      refine ⟨k, hk, ?_⟩
      rw [List.all_eq_true] at hall ⊢
      intro c hc
      have hcs : c ∈ cs := List.mem_of_mem_take hc
      have hc1 := hall c hc
      unfold filesPresent at hc1 ⊢
      rw [List.all_eq_true] at hc1 ⊢
      intro f hf
      have hf1 := hc1 f hf
      by_cases hfp : f.1 = p
      · simp only [applyOp, hfp, aget_aset_eq]
        rw [List.all_eq_true] at hok
        have h2 := hok c hcs
        rw [List.all_eq_true] at h2
        have h3 := h2 f hf
        simp [hfp] at h3
        simp [h3]
      · simp only [applyOp]
        rw [aget_aset_ne hfp]
        exact hf1
  | del p =>
    simp only [Bool.and_eq_true, decide_eq_true_eq] at hok
    obtain ⟨hfiles, hp⟩ := hok
    intro m hm
    simp only [applyOp] at hm
    rw [aget_adel_ne (Ne.symm hp)] at hm
    obtain ⟨k, hk, hall⟩ := hs m hm
    refine ⟨k, hk, ?_⟩
    rw [← hall]
    apply all_congr_mem
    intro c hc
    apply filesPresent_congr
    intro f hf
    simp only [applyOp]
    apply aget_adel_ne
    rw [List.all_eq_true] at hfiles
    have h2 := hfiles c (List.mem_of_mem_take hc)
    rw [List.all_eq_true] at h2
    simpa using h2 f hf

theorem orderedFrom_cons (cs : List Commit) (s : List (Path × Ver)) (o : Op) (os : List Op) :
    orderedFrom cs s (o :: os) = (orderedFrom cs s [o] && orderedFrom cs (applyOp s o) os) := by
  simp [orderedFrom]

/-- **Monitor theorem.**  If the completion log satisfies `ordered` from an openable image,
every prefix of it replays to an openable image. -/
theorem orderedFrom_prefix_openable (cs : List Commit) (hwf : WfCommits cs) (os : List Op) :
    ∀ (s : List (Path × Ver)), Openable cs s → orderedFrom cs s os = true →
      ∀ n, Openable cs ((os.take n).foldl applyOp s) := by
  induction os with
  | nil => intro s hs _ n; simpa using hs
  | cons o os ih =>
    intro s hs hok n
    rw [orderedFrom_cons, Bool.and_eq_true] at hok
    cases n with
    | zero => simpa using hs
    | succ n =>
      simp only [List.take_succ_cons, List.foldl_cons]
      exact ih _ (openable_step cs hwf s o hs hok.1) hok.2 n

theorem openable_nil (cs : List Commit) : Openable cs [] := by
  intro v hv; simp at hv

/-- every prefix of an `ordered` completion log is an image that reopens (never a partial
commit) -/
theorem ordered_prefix_recoverable (cs : List Commit) (hwf : WfCommits cs) (done : List Op)
    (hord : ordered cs done = true) (n : Nat) : recover cs (replay (done.take n)) ≠ Rec.broken := by
  rw [← openable_iff]
  exact orderedFrom_prefix_openable cs hwf done [] (openable_nil cs) hord n

/-! ## the code as it exists -/

/-- **close_any_time, partial.**  For every interleaving of program, tasks and browser events
(`ls`) and every close point (every `s` reached), *if* the transactions completed in an order
that satisfies `ordered` (files before the manifest that names them), the stored image
reopens.  The hypothesis is decidable, holds under the specified IndexedDB transaction order
and is evaluated on the real completion logs by the harness. -/
theorem close_any_time_partial (cs : List Commit) (hwf : WfCommits cs) (rep : Bool)
    (ls : List PLabel) (s : PSt) (h : pexec (initP cs rep) ls = some s)
    (hord : ordered cs s.q.done = true) : recover cs s.q.store ≠ Rec.broken := by
  have h1 : s.q.store = replay s.q.done := pexec_store_replay h rfl
  rw [h1]
  have := ordered_prefix_recoverable cs hwf s.q.done hord s.q.done.length
  simpa using this

/-- a one-file commit after `init` -/
def witnessCommits : List Commit := [{ manifest := [0] }, { files := [(2, [1])], manifest := [1] }]

/-- `init` completes; `commit` schedules its file and its manifest and awaits them; the
browser finishes the manifest's transaction first; the page is closed -/
def witnessA : List PLabel :=
  [.prog, .prog, .prog, .adv (.run 0), .adv (.succ 0), .adv (.run 0), .adv (.complete 0), .prog,
   .prog, .prog, .prog, .prog, .adv (.run 2), .adv (.succ 1), .adv (.complete 1)]

/-- **Negative witness (close_any_time is false for the code as it exists).**  The persistence
tasks of one commit are independent: the manifest can become durable before the segment file
it names, and then the stored image does not reopen. -/
theorem close_any_time_neg :
    (pexec (initP witnessCommits false) witnessA).map
      (fun s => (recover witnessCommits s.q.store, s.started, s.resolvedBlocks)) =
    some (Rec.broken, 2, 1) := by decide

/-- `init` completes; both requests of `commit` succeed, the promise resolves; only the
segment file's transaction completes before the page is closed -/
def witnessB : List PLabel :=
  [.prog, .prog, .prog, .adv (.run 0), .adv (.succ 0), .adv (.run 0), .adv (.complete 0), .prog,
   .prog, .prog, .prog, .prog, .adv (.run 1), .adv (.run 2), .adv (.succ 1), .adv (.succ 2),
   .adv (.run 1), .adv (.run 2), .prog, .adv (.complete 1)]

/-- **Negative witness (resolved_commit_present is false for the code as it exists).**
`persist_file` awaits the request's `success` event, not the transaction's completion: both
blocks have resolved (`resolvedBlocks = 2`) but the image reopens to commit 0. -/
theorem resolved_commit_lost_neg :
    (pexec (initP witnessCommits false) witnessB).map
      (fun s => (recover witnessCommits s.q.store, s.started, s.resolvedBlocks)) =
    some (Rec.commit 0, 2, 2) := by decide

/-- the same adversary moves are not possible against the repaired protocol (the manifest is
not even scheduled before the file is durable) -/
example : pexec (initP witnessCommits true) witnessA = none := by decide

/-- non-vacuity of `close_any_time_partial`: a complete run whose log is ordered -/
example :
    (pexec (initP witnessCommits false)
      [.prog, .prog, .prog, .adv (.run 0), .adv (.succ 0), .adv (.run 0), .adv (.complete 0), .prog,
       .prog, .prog, .prog, .prog, .adv (.run 1), .adv (.run 2), .adv (.succ 1), .adv (.complete 1),
       .adv (.succ 2), .adv (.complete 2)]).map
      (fun s => (ordered witnessCommits s.q.done, recover witnessCommits s.q.store)) =
    some (true, Rec.commit 1) := by decide

/-- non-vacuity of the monitor: the witness's completion log is rejected by `ordered` -/
example : ordered witnessCommits [Op.put 0 ⟨[0], 0⟩, Op.put 0 ⟨[1], 2⟩] = false := by decide

example : WfCommits witnessCommits := by decide

end SL.Idb
