import SLModel.Core.Idb
import SLModel.Lemmas.Idb
import SLModel.Lemmas.IdbQueue
import SLModel.Lemmas.IdbProgram
import SLModel.Lemmas.IdbRepaired
import SLModel.Lemmas.IdbChain
import SLModel.Lemmas.IdbResolved
/-!
# C27 — browser persistence survives a reload at any moment

Model: `Core/Idb` (persistence queue with coalescing, one IndexedDB transaction per persisted
file, request success and transaction completion as separate browser events, `JsFile`
scheduling, the page's program, recovery of a stored image).

The property as stated — *for every ordering of the persistence tasks and IndexedDB events
and every moment of closing the page, the stored image reopens to the contents of a commit
that had started, and every commit whose promise resolved is included* — is the statement

```
theorem close_any_time (cs : List Commit) (wf : WfRep cs) (hn : (cs.map (·.manifest)).Nodup)
    (ls : List PLabel) (s : PSt) (h : pexec (initP cs false) ls = some s) : CloseOk cs s
```

about the code as it exists (`initP cs false`: `blockOf`, `awaitComplete = false`).  It is
**false**; the negative witnesses `close_any_time_neg` (a manifest becomes durable before a
segment file it names: the image does not reopen) and `resolved_commit_lost_neg` (the commit
promise resolves on the request's `success`, the transaction has not completed: the image
reopens to the previous commit) are proved below by `decide`.  What is proved instead:

* `store_eq_replay` — the stored image is the replay of the completed transactions;
* `ordered_prefix_recoverable`, `close_any_time_partial` — under the explicit, decidable
  ordering hypothesis `ordered` (every manifest completes after the files it names; it holds
  for the specified IndexedDB transaction order, and is evaluated on the real completion
  logs by the harness) no close image is partial, for every interleaving and close point;
* `resolved_succeeded` — what `flush` really guarantees: a resolved receiver's path has a
  snapshot at least as new whose put request *succeeded* (durable only under `awaitComplete`);
* `close_any_time_repaired` (= `close_never_partial_repaired` + `recovered_started_repaired` +
  `resolved_commit_present_repaired`) — the full statement for the repaired protocol
  (`blockRepaired`: the files a manifest names are awaited before the manifest is scheduled;
  `awaitComplete`: waiters are notified on transaction completion), for every interleaving
  and close point;
* `resolved_present_await_complete` — with `awaitComplete`, a resolved receiver's path is in the
  store with a snapshot at least as new (the coalescing queue never lets an older snapshot win).
-/
namespace SL.Idb

/-! ## the stored image is the replay of the completion log -/

/-- the durable store is exactly what the completed transactions wrote, in completion order -/
theorem store_eq_replay (ac : Bool) (ls : List Label) (σ : St)
    (h : exec { awaitComplete := ac } ls = some σ) : σ.store = replay σ.done :=
  exec_store_replay h rfl

/-! ## the ordering monitor: `ordered` ⇒ no prefix of the completion log is a partial image -/

/-- segment files never live at the manifest's path -/
def WfCommits (cs : List Commit) : Prop :=
  ∀ c ∈ cs, ∀ f ∈ c.files, f.1 ≠ manifestPath

instance (cs : List Commit) : Decidable (WfCommits cs) := by
  unfold WfCommits; infer_instance

theorem openable_step (cs : List Commit) (hwf : WfCommits cs) (s : List (Path × Ver)) (o : Op)
    (hs : Openable cs s) (hok : orderedFrom cs s [o] = true) : Openable cs (applyOp s o) := by
  simp only [orderedFrom, Bool.and_true] at hok
  cases o with
  | put p v =>
    by_cases hp : p = manifestPath
    · subst hp
      simp only [if_true] at hok
      intro v' hv'
      simp only [applyOp, aget_aset_eq] at hv'
      cases hv'
      cases hk : findManifest v.data cs with
      | none => simp [hk] at hok
      | some k =>
        simp only [hk] at hok
        refine ⟨k, rfl, ?_⟩
        rw [← hok]
        apply all_congr_mem
        intro c hc
        apply filesPresent_congr
        intro f hf
        exact aget_aset_ne (hwf c (List.mem_of_mem_take hc) f hf) _ _
    · simp only [hp, if_false] at hok
      intro m hm
      simp only [applyOp] at hm
      rw [aget_aset_ne (Ne.symm hp)] at hm
      obtain ⟨k, hk, hall⟩ := hs m hm
      refine ⟨k, hk, ?_⟩
      rw [List.all_eq_true] at hall ⊢
      intro c hc
      have hcs : c ∈ cs := List.mem_of_mem_take hc
      have hc1 := hall c hc
      unfold filesPresent at hc1 ⊢
      rw [List.all_eq_true] at hc1 ⊢
      intro f hf
      have hf1 := hc1 f hf
      by_cases hfp : f.1 = p
      · simp only [applyOp, hfp, aget_aset_eq]
        rw [List.all_eq_true] at hok
        have h2 := hok c hcs
        rw [List.all_eq_true] at h2
        have h3 := h2 f hf
        simp [hfp] at h3
        simp [h3]
      · simp only [applyOp]
        rw [aget_aset_ne hfp]
        exact hf1
  | del p =>
    simp only [Bool.and_eq_true, decide_eq_true_eq] at hok
    obtain ⟨hfiles, hp⟩ := hok
    intro m hm
    simp only [applyOp] at hm
    rw [aget_adel_ne (Ne.symm hp)] at hm
    obtain ⟨k, hk, hall⟩ := hs m hm
    refine ⟨k, hk, ?_⟩
    rw [← hall]
    apply all_congr_mem
    intro c hc
    apply filesPresent_congr
    intro f hf
    simp only [applyOp]
    apply aget_adel_ne
    rw [List.all_eq_true] at hfiles
    have h2 := hfiles c (List.mem_of_mem_take hc)
    rw [List.all_eq_true] at h2
    simpa using h2 f hf

theorem orderedFrom_cons (cs : List Commit) (s : List (Path × Ver)) (o : Op) (os : List Op) :
    orderedFrom cs s (o :: os) = (orderedFrom cs s [o] && orderedFrom cs (applyOp s o) os) := by
  simp [orderedFrom]

/-- **Monitor theorem.**  If the completion log satisfies `ordered` from an openable image,
every prefix of it replays to an openable image. -/
theorem orderedFrom_prefix_openable (cs : List Commit) (hwf : WfCommits cs) (os : List Op) :
    ∀ (s : List (Path × Ver)), Openable cs s → orderedFrom cs s os = true →
      ∀ n, Openable cs ((os.take n).foldl applyOp s) := by
  induction os with
  | nil => intro s hs _ n; simpa using hs
  | cons o os ih =>
    intro s hs hok n
    rw [orderedFrom_cons, Bool.and_eq_true] at hok
    cases n with
    | zero => simpa using hs
    | succ n =>
      simp only [List.take_succ_cons, List.foldl_cons]
      exact ih _ (openable_step cs hwf s o hs hok.1) hok.2 n

/-- every prefix of an `ordered` completion log is an image that reopens (never a partial
commit) -/
theorem ordered_prefix_recoverable (cs : List Commit) (hwf : WfCommits cs) (done : List Op)
    (hord : ordered cs done = true) (n : Nat) : recover cs (replay (done.take n)) ≠ Rec.broken := by
  rw [← openable_iff]
  exact orderedFrom_prefix_openable cs hwf done [] (openable_nil cs) hord n

/-! ## the code as it exists -/

/-- **close_any_time, partial.**  For every interleaving of program, tasks and browser events
(`ls`) and every close point (every `s` reached), *if* the transactions completed in an order
that satisfies `ordered` (files before the manifest that names them), the stored image
reopens.  The hypothesis is decidable, holds under the specified IndexedDB transaction order
and is evaluated on the real completion logs by the harness. -/
theorem close_any_time_partial (cs : List Commit) (hwf : WfCommits cs) (rep : Bool)
    (ls : List PLabel) (s : PSt) (h : pexec (initP cs rep) ls = some s)
    (hord : ordered cs s.q.done = true) : recover cs s.q.store ≠ Rec.broken := by
  have h1 : s.q.store = replay s.q.done := pexec_store_replay h rfl
  rw [h1]
  have := ordered_prefix_recoverable cs hwf s.q.done hord s.q.done.length
  simpa using this

/-- a one-file commit after `init` -/
def witnessCommits : List Commit := [{ manifest := [0] }, { files := [(2, [1])], manifest := [1] }]

/-- `init` completes; `commit` schedules its file and its manifest and awaits them; the
browser finishes the manifest's transaction first; the page is closed -/
def witnessA : List PLabel :=
  [.prog, .prog, .prog, .adv (.run 0), .adv (.succ 0), .adv (.run 0), .adv (.complete 0), .prog,
   .prog, .prog, .prog, .prog, .adv (.run 2), .adv (.succ 1), .adv (.complete 1)]

/-- **Negative witness (close_any_time is false for the code as it exists).**  The persistence
tasks of one commit are independent: the manifest can become durable before the segment file
it names, and then the stored image does not reopen. -/
theorem close_any_time_neg :
    (pexec (initP witnessCommits false) witnessA).map
      (fun s => (recover witnessCommits s.q.store, s.started, s.resolvedBlocks)) =
    some (Rec.broken, 2, 1) := by decide

/-- `init` completes; both requests of `commit` succeed, the promise resolves; only the
segment file's transaction completes before the page is closed -/
def witnessB : List PLabel :=
  [.prog, .prog, .prog, .adv (.run 0), .adv (.succ 0), .adv (.run 0), .adv (.complete 0), .prog,
   .prog, .prog, .prog, .prog, .adv (.run 1), .adv (.run 2), .adv (.succ 1), .adv (.succ 2),
   .adv (.run 1), .adv (.run 2), .prog, .adv (.complete 1)]

/-- **Negative witness (resolved_commit_present is false for the code as it exists).**
`persist_file` awaits the request's `success` event, not the transaction's completion: both
blocks have resolved (`resolvedBlocks = 2`) but the image reopens to commit 0. -/
theorem resolved_commit_lost_neg :
    (pexec (initP witnessCommits false) witnessB).map
      (fun s => (recover witnessCommits s.q.store, s.started, s.resolvedBlocks)) =
    some (Rec.commit 0, 2, 2) := by decide

/-- the same adversary moves are not possible against the repaired protocol (the manifest is
not even scheduled before the file is durable) -/
example : pexec (initP witnessCommits true) witnessA = none := by decide

/-- non-vacuity of `close_any_time_partial`: a complete run whose log is ordered -/
example :
    (pexec (initP witnessCommits false)
      [.prog, .prog, .prog, .adv (.run 0), .adv (.succ 0), .adv (.run 0), .adv (.complete 0), .prog,
       .prog, .prog, .prog, .prog, .adv (.run 1), .adv (.run 2), .adv (.succ 1), .adv (.complete 1),
       .adv (.succ 2), .adv (.complete 2)]).map
      (fun s => (ordered witnessCommits s.q.done, recover witnessCommits s.q.store)) =
    some (true, Rec.commit 1) := by decide

/-- non-vacuity of the monitor: the witness's completion log is rejected by `ordered` -/
example : ordered witnessCommits [Op.put 0 ⟨[0], 0⟩, Op.put 0 ⟨[1], 2⟩] = false := by decide

example : WfCommits witnessCommits := by decide

/-! ## what `flush` really guarantees -/

/-- **resolved_succeeded.**  For every interleaving (also with `schedule_delete`): when a
receiver has resolved with `Ok`, a snapshot of its path *at least as new* as the one handed to
that `schedule` call is safe — its transaction completed, or (in the code as it exists,
`awaitComplete = false`) its put request succeeded.  Coalescing never loses the newest
snapshot; but "resolved" does not mean "durable". -/
theorem resolved_succeeded (ac : Bool) (ls : List Label) (σ : St)
    (h : exec { awaitComplete := ac } ls = some σ) (w : Nat) (hw : w ∈ σ.resolved) :
    ∃ p, pathOf σ w = some p ∧ Safe σ p w :=
  (qinv_exec (qinv_init ac) h).i4 w hw

/-- … and when waiters are notified on transaction completion, resolved does mean durable -/
theorem resolved_durable_await_complete (ls : List Label) (σ : St)
    (h : exec { awaitComplete := true } ls = some σ) (w : Nat) (hw : w ∈ σ.resolved) :
    ∃ p v, pathOf σ w = some p ∧ Op.put p v ∈ σ.done ∧ w ≤ v.seq := by
  obtain ⟨p, hp, s, hws, hs⟩ := resolved_succeeded true ls σ h w hw
  have hac : σ.awaitComplete = true := exec_awaitComplete h
  rcases hs with ⟨v, hv, hvs⟩ | ⟨hf, _⟩
  · exact ⟨p, v, hp, hv, by omega⟩
  · rw [hac] at hf; cases hf

/-- a `flush()` that finished with `Ok` covers every receiver it took -/
theorem flush_ok_succeeded (ac : Bool) (ls : List Label) (σ : St)
    (h : exec { awaitComplete := ac } ls = some σ) (f : Nat) (rs : List Nat)
    (hrs : σ.flushes[f]? = some rs) (hok : flushOk σ f = true) :
    ∀ r ∈ rs, ∃ p, pathOf σ r = some p ∧ Safe σ p r := by
  intro r hr
  unfold flushOk at hok
  rw [hrs] at hok
  simp only [List.all_eq_true, List.contains_iff_mem] at hok
  exact resolved_succeeded ac ls σ h r (hok r hr)

/-- non-vacuity: two snapshots of one path coalesce; the receiver of the first resolves (and
the flush that took it finishes) when the request of the first succeeds; the second snapshot is
written afterwards, in its own transaction -/
example :
    (exec {} [.sched 5 [1], .flushTake, .run 0, .sched 5 [2], .succ 0, .run 0, .complete 0]).map
      (fun σ => (σ.resolved, σ.store.map (fun pv => (pv.1, pv.2.data)), flushOk σ 0)) =
    some ([0], [(5, [1])], true) := by decide

/-! ## the repaired protocol -/

/-- **close_any_time for the repaired protocol, part 1: never a partial commit.**  Repaired =
`blockRepaired` (the segment files are awaited before the manifest that names them is
scheduled) + `awaitComplete` (waiters are notified when the transaction completes).  For every
interleaving of program, tasks and browser events and every close point, the stored image
reopens. -/
theorem close_never_partial_repaired (cs : List Commit) (wf : WfRep cs) (ls : List PLabel) (s : PSt)
    (h : pexec (initP cs true) ls = some s) : recover cs s.q.store ≠ Rec.broken := by
  rw [← openable_iff]
  exact (pinv_pexec wf (pinv_init cs) h).op

/-- **… part 2: the recovered commit had started.** -/
theorem recovered_started_repaired (cs : List Commit) (wf : WfRep cs) (ls : List PLabel) (s : PSt)
    (h : pexec (initP cs true) ls = some s) (k : Nat) (hk : recover cs s.q.store = Rec.commit k) :
    k < s.started := by
  have inv := pinv_pexec wf (pinv_init cs) h
  unfold recover at hk
  cases hm : aget manifestPath s.q.store with
  | none => simp [hm] at hk
  | some v =>
    simp only [hm] at hk
    cases hf : findManifest v.data cs with
    | none => simp [hf] at hk
    | some k0 =>
      simp only [hf] at hk
      split at hk
      · cases hk
        rw [inv.sr] at hm
        have hmem := replay_get_mem _ _ _ hm
        obtain ⟨k1, c1, hk1, hc1, hm1⟩ := inv.man _ (inv.g.g3 _ _ hmem)
        obtain ⟨k2, hk2, hf2⟩ := findManifest_le v.data cs k1 c1 hc1 hm1
        rw [hf] at hf2
        cases hf2
        have : filesDone s ≤ s.started := by unfold filesDone; split <;> omega
        omega
      · cases hk

/-- **… part 3: every block whose promise resolved is in the recovered commit.** -/
theorem resolved_commit_present_repaired (cs : List Commit) (wf : WfRep cs)
    (hn : (cs.map (·.manifest)).Nodup) (ls : List PLabel) (s : PSt)
    (h : pexec (initP cs true) ls = some s) (n : Nat) (hres : n < s.resolvedBlocks) :
    ∃ k, recover cs s.q.store = Rec.commit k ∧ n ≤ k := by
  obtain ⟨inv, r⟩ := rinv_pexec wf hn (pinv_init cs) (rinv_init cs) h
  obtain ⟨v, k, c, hv, hc, hm, hk⟩ := r.rp n hres
  have hnb := close_never_partial_repaired cs wf ls s h
  unfold recover at hnb ⊢
  simp only [hv] at hnb ⊢
  obtain ⟨k0, _, hf⟩ := findManifest_le v.data cs k c hc hm
  obtain ⟨c0, hc0, hm0⟩ := findManifest_some v.data cs k0 hf
  have hkk : k0 = k := idx_unique hn hc0 hc (hm0.trans hm.symm)
  subst hkk
  simp only [hf] at hnb ⊢
  split
  · exact ⟨k0, rfl, hk⟩
  · rename_i hall
    simp [hall] at hnb

/-- what the property asks of a page state: the stored image reopens, to a commit that had
started, which includes every commit whose promise has resolved -/
def CloseOk (cs : List Commit) (s : PSt) : Prop :=
  recover cs s.q.store ≠ Rec.broken ∧
  (∀ k, recover cs s.q.store = Rec.commit k → k < s.started) ∧
  (∀ n, n < s.resolvedBlocks → ∃ k, recover cs s.q.store = Rec.commit k ∧ n ≤ k)

/-- **close_any_time for the repaired protocol** (segment files awaited before the manifest is
scheduled; waiters notified on transaction completion): for every interleaving of the program,
the persistence tasks and the browser's request/transaction events, and for every moment at
which the page is closed, the stored image reopens to a commit that had started and that
includes every commit whose promise had resolved — never a partial one. -/
theorem close_any_time_repaired (cs : List Commit) (wf : WfRep cs) (hn : (cs.map (·.manifest)).Nodup)
    (ls : List PLabel) (s : PSt) (h : pexec (initP cs true) ls = some s) : CloseOk cs s :=
  ⟨close_never_partial_repaired cs wf ls s h, recovered_started_repaired cs wf ls s h,
   resolved_commit_present_repaired cs wf hn ls s h⟩

/-- the same statement is false for the code as it exists (both witnesses above) -/
theorem close_any_time_false_for_current_code :
    ¬ (∀ (ls : List PLabel) (s : PSt), pexec (initP witnessCommits false) ls = some s → CloseOk witnessCommits s) := by
  intro hall
  have h1 := close_any_time_neg
  cases hp : pexec (initP witnessCommits false) witnessA with
  | none => rw [hp] at h1; simp at h1
  | some s =>
    rw [hp] at h1
    simp only [Option.map_some, Option.some.injEq, Prod.mk.injEq] at h1
    exact (hall witnessA s hp).1 h1.1

/-! ## the store holds the newest snapshot -/

/-- **store_newest / resolved means stored (when waiters are notified on completion).**  In a
run without `schedule_delete`, for every interleaving: once a receiver has resolved, the store
holds a snapshot of its path at least as new as the one handed to that `schedule` call — the
coalescing queue never lets an older snapshot win. -/
theorem resolved_present_await_complete (ls : List Label) (hnd : NoDelLabels ls) (σ : St)
    (h : exec { awaitComplete := true } ls = some σ) (w : Nat) (hw : w ∈ σ.resolved) :
    ∃ p v', pathOf σ w = some p ∧ aget p σ.store = some v' ∧ w ≤ v'.seq := by
  obtain ⟨_, c, n, sr⟩ := all_inv_exec hnd h (qinv_init true) (cinv_init true) (nodel_init true) rfl
  obtain ⟨p, v, hp, hv, hwv⟩ := resolved_durable_await_complete ls σ h w hw
  obtain ⟨v', hv', hvv'⟩ := store_newest c n sr hv
  exact ⟨p, v', hp, hv', by omega⟩

/-- non-vacuity of the repaired theorems: a complete run of the repaired protocol on the
witness commits ends with commit 1 recovered and both blocks resolved -/
example :
    (pexec (initP witnessCommits true)
      [.prog, .prog, .prog, .prog, .prog, .adv (.run 0), .adv (.succ 0), .adv (.complete 0), .adv (.run 0), .prog,
       .prog, .prog, .prog, .adv (.run 1), .adv (.succ 1), .adv (.complete 1), .adv (.run 1), .prog,
       .prog, .prog, .adv (.run 2), .adv (.succ 2), .adv (.complete 2), .adv (.run 2), .prog]).map
      (fun s => (recover witnessCommits s.q.store, s.started, s.resolvedBlocks)) =
    some (Rec.commit 1, 2, 2) := by decide

example : WfRep witnessCommits := by
  refine ⟨by decide, by decide, by decide⟩

example : (witnessCommits.map (·.manifest)).Nodup := by decide

end SL.Idb
