import SLModel.Core.Paths
/-!
# C28 — a copied index directory is self-contained
For the repaired resolution every path an operation derives from the manifest lies under the
root the index was opened at, and reading a byte-identical copy at another root returns the
same contents as reading the original; the original resolution uses the recorded path
verbatim and therefore reaches back into the original directory.
-/
namespace SL.Paths

theorem resolve_under_root (root stored : Path) : root <+: resolve root stored := by
  unfold resolve
  split
  · exact List.prefix_append _ _
  · exact List.prefix_refl _

theorem resolve_recorded (root root' : Path) (name : String) :
    resolve root' (root ++ [name]) = root' ++ [name] := by
  simp [resolve]

/-- every path touched through the manifest is under the current root -/
theorem touched_under_root (root : Path) (manifest : List Path) :
    ∀ p ∈ touched resolve root manifest, root <+: p := by
  intro p hp
  obtain ⟨q, _, rfl⟩ := List.mem_map.mp hp
  exact resolve_under_root root q

/-- **copy equivalence**: if the copy at `root'` holds under each file name what the original
holds under the same name, reading the manifest (written at `root`) through the copy returns
exactly what reading it through the original returns — for every manifest and directory. -/
theorem copy_equiv {β : Type} (root root' : Path) (files files' : Files β) (names : List String)
    (hcopy : ∀ n ∈ names, files' (root' ++ [n]) = files (root ++ [n])) :
    readAll resolve root' files' (names.map fun n => root ++ [n])
      = readAll resolve root files (names.map fun n => root ++ [n]) := by
  simp only [readAll, List.map_map]
  apply List.map_congr_left
  intro n hn
  simp [resolve_recorded, hcopy n hn]

/-- the copy does not depend on the original any more: removing or changing the original
directory does not change what is read through the copy -/
theorem copy_independent {β : Type} (root' : Path) (files₁ files₂ : Files β) (manifest : List Path)
    (hsame : ∀ p, root' <+: p → files₁ p = files₂ p) :
    readAll resolve root' files₁ manifest = readAll resolve root' files₂ manifest := by
  simp only [readAll]
  apply List.map_congr_left
  intro p _
  exact hsame _ (resolve_under_root root' p)

/-- negative witness for the original rule: a manifest written at `/a`, opened at `/b`, touches
`/a/seg.docs` — outside the directory it was opened at -/
theorem legacy_escapes_root :
    touched resolveLegacy ["b"] [["a", "seg.docs"]] = [["a", "seg.docs"]] ∧
    ¬ (["b"] <+: ["a", "seg.docs"]) ∧
    touched resolve ["b"] [["a", "seg.docs"]] = [["b", "seg.docs"]] := by
  decide

example : resolve ["tmp", "copy"] ["tmp", "orig", "seg_1.terms"] = ["tmp", "copy", "seg_1.terms"] := by
  decide

end SL.Paths
