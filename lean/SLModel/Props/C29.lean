import SLModel.Core.Vector
import SLModel.Lemmas.Vector
/-!
# C29 — vector and hybrid search return correctly scored, filtered hits

Model: `SLModel/Core/Vector.lean` (`SL.Vec.searchReq` and its parts).  All statements hold for
every scalar type `S` with the operations of `Scalar S` (the driver runs the same definitions
on `Float32`); the ones about *order* assume that `tlt` (the model's `f32::total_cmp`) is a
strict total order (`TltLaws`), the algebraic ones are stated over `Rat`.

Tie to the code: `harness/src/props/c29.rs` runs the real index / `HnswIndex` and `Drv/C29`
on the same inputs (hits, scores bit for bit, graph files), and evaluates the property
predicates below on the implementation alone with brute-force neighbours.
-/
namespace SL.Vec
open Scalar

section
variable {S : Type} [Scalar S] {κ : Type} [DecidableEq κ]

/-! ## 1. hits are live, filtered documents that have a vector -/

/-- document `(seg, doc)` is live, passes `filter` and `vector_filter` (and the text matcher
when `requireText`) and has a vector in the field of clause `c` -/
def Eligible (requireText : Bool) (segs : List (Segment κ S)) (c : Clause κ S) (seg doc : Nat) : Prop :=
  ∃ sg d raw, segs[seg]? = some sg ∧ sg[doc]? = some d ∧ d.deleted = false ∧
    d.passFilter = true ∧ d.passVFilter = true ∧ (requireText = true → d.textMatch = true) ∧
    d.rawVec c.field = some raw

theorem candOK_eligible {rt : Bool} {segs : List (Segment κ S)} {c : Clause κ S} {x : Cand S}
    (h : CandOK rt segs c x) : Eligible rt segs c x.seg x.doc := by
  obtain ⟨sg, d, raw, h1, h2, h3, h4, h5, h6, h7, _⟩ := h
  exact ⟨sg, d, raw, h1, h2, h3, h4, h5, h6, h7⟩

/-- a key of the candidate maps belongs to an eligible document of some clause -/
theorem candKeys_eligible (rt : Bool) (p : Plan κ S) (segs : List (Segment κ S)) (k : Nat × Nat)
    (hk : k ∈ candKeys (p.clauses.map (clauseCands rt segs))) :
    ∃ c ∈ p.clauses, Eligible rt segs c k.1 k.2 := by
  unfold candKeys at hk
  rw [List.mem_flatMap] at hk
  obtain ⟨m, hm, hk⟩ := hk
  rw [List.mem_map] at hm hk
  obtain ⟨c, hc, rfl⟩ := hm
  obtain ⟨x, hx, rfl⟩ := hk
  exact ⟨c, hc, candOK_eligible (clauseCands_ok rt segs c x hx)⟩

/-- **vector_hits_filtered** (vector-only requests): every hit is a live document that passes
`filter` and `vector_filter` and has a vector in the field of one of the clauses. -/
theorem vector_hits_filtered (p : Plan κ S) (segs : List (Segment κ S)) (limit : Nat)
    (h : Hit S) (hh : h ∈ searchVectorOnly p segs limit) :
    ∃ c ∈ p.clauses, Eligible false segs c h.seg h.doc := by
  unfold searchVectorOnly at hh
  have hh := (mem_isort _ _ _).mp (List.mem_of_mem_take hh)
  rw [List.mem_map] at hh
  obtain ⟨k, hk, rfl⟩ := hh
  exact candKeys_eligible false p segs k (mem_dedupKeys _ k hk)

/-- **vector_hits_filtered** (hybrid requests): a hit that carries a `vector_score` is an
eligible candidate (live, filters, vector present, text match) of some clause; a hit without
one is a text hit of its segment. -/
theorem hybrid_hits_filtered (p : Plan κ S) (segs : List (Segment κ S)) (limit : Nat)
    (h : Hit S) (hh : h ∈ searchHybrid p segs limit) :
    (h.vectorScore.isSome → ∃ c ∈ p.clauses, Eligible true segs c h.seg h.doc) ∧
    (h.vectorScore = none → ∃ sg d, segs[h.seg]? = some sg ∧ sg[h.doc]? = some d ∧ d.bm25.isSome) := by
  unfold searchHybrid at hh
  have hh := (mem_isort _ _ _).mp (List.mem_of_mem_take hh)
  rw [List.mem_filterMap] at hh
  obtain ⟨k, hk, hf⟩ := hh
  simp only at hf
  split at hf
  · simp at hf
  · simp only [Option.some.injEq] at hf
    subst hf
    simp only
    -- has_vector ↔ some clause map holds the key
    have hv : ∀ bm25 : S, (hybridScore p (p.clauses.map (clauseCands true segs)) bm25 k.1 k.2).hasVector = true →
        ∃ c ∈ p.clauses, Eligible true segs c k.1 k.2 := by
      intro bm25 hhv
      rw [hybridScore_hasVector] at hhv
      rcases hybridAcc_hasVector bm25 k.1 k.2 p.clauses (p.clauses.map (clauseCands true segs))
        (zero, zero, false) hhv with h0 | ⟨q, hq, hs⟩
      · simp at h0
      · obtain ⟨c, m⟩ := q
        have hcm := List.of_mem_zip hq
        have hm : m = clauseCands true segs c := by
          obtain ⟨i, hi, hget⟩ := List.mem_iff_getElem.mp hq
          simp only [List.getElem_zip, List.getElem_map, Prod.mk.injEq] at hget
          rw [← hget.1, ← hget.2]
        subst hm
        cases hl : lookupCand (clauseCands true segs c) k.1 k.2 with
        | none => simp [hl] at hs
        | some sc =>
          obtain ⟨x, hx, h1, h2, _⟩ := lookupCand_some hl
          have := candOK_eligible (clauseCands_ok true segs c x hx)
          rw [h1, h2] at this
          exact ⟨c, hcm.1, this⟩
    have hvs : ∀ bm25 : S, (hybridScore p (p.clauses.map (clauseCands true segs)) bm25 k.1 k.2).vectorScore.isSome →
        (hybridScore p (p.clauses.map (clauseCands true segs)) bm25 k.1 k.2).hasVector = true := by
      intro bm25 h
      rw [hybridScore_vectorScore] at h
      rw [hybridScore_hasVector]
      split at h
      · assumption
      · simp at h
    constructor
    · intro hsome
      exact hv _ (hvs _ hsome)
    · intro hnone
      -- the key comes from a text hit or from a candidate map; the latter has a vector score
      rcases List.mem_append.mp (mem_dedupKeys _ k hk) with hth | hck
      · rw [List.mem_map] at hth
        obtain ⟨x, hx, rfl⟩ := hth
        unfold textHits at hx
        rw [List.mem_flatMap] at hx
        obtain ⟨⟨i, sg⟩, hp, hx⟩ := hx
        have hx := (mem_isort _ _ _).mp (List.mem_of_mem_take hx)
        rw [List.mem_filterMap] at hx
        obtain ⟨⟨j, d⟩, hq, hx⟩ := hx
        obtain ⟨_, hsg⟩ := mem_enumFrom segs 0 i sg hp
        obtain ⟨_, hd⟩ := mem_enumFrom sg 0 j d hq
        simp only at hx
        cases hb : d.bm25 with
        | none => simp [hb] at hx
        | some sc =>
          simp only [hb, Option.some.injEq] at hx
          subst hx
          exact ⟨sg, d, by simpa using hsg, by simpa using hd, by simp [hb]⟩
      · exfalso
        -- a key of a candidate map always yields has_vector = true
        unfold candKeys at hck
        rw [List.mem_flatMap] at hck
        obtain ⟨m, hm, hkm⟩ := hck
        rw [List.mem_map] at hkm
        obtain ⟨x, hx, rfl⟩ := hkm
        have hpos := hybridAcc_of_mem (κ := κ) ((lookupCand (textHits segs (max p.candidateSize limit + 1)) x.seg x.doc).getD zero)
          x.seg x.doc p.clauses (p.clauses.map (clauseCands true segs)) (zero, zero, false) m x
          (by simp) hm hx rfl rfl
        rw [hybridScore_vectorScore] at hnone
        simp [hpos] at hnone

/-! ## 2. `vector_score` and `score` are what the documentation says -/

/-- **vector_score_def** (vector-only request with one clause): the hit's `vector_score` is the
similarity between the prepared query and the prepared stored vector (cosine: both
normalised, dot product; L2: negated distance) times the clause boost (added to the `0.0`
the accumulator starts from), and `score` is the clause's blend of it with a zero text score. -/
theorem vector_score_def (p : Plan κ S) (c : Clause κ S) (hc : p.clauses = [c])
    (segs : List (Segment κ S)) (limit : Nat) (h : Hit S) (hh : h ∈ searchVectorOnly p segs limit) :
    ∃ sg d raw, segs[h.seg]? = some sg ∧ sg[h.doc]? = some d ∧ d.rawVec c.field = some raw ∧
      h.vectorScore = some (add zero (mul (metricSim c.metric c.vector (prep c.metric raw)) c.boost)) ∧
      h.score = div (add zero (blendClause zero c
        (some (mul (metricSim c.metric c.vector (prep c.metric raw)) c.boost)))) (ofNat 1) := by
  unfold searchVectorOnly at hh
  have hh := (mem_isort _ _ _).mp (List.mem_of_mem_take hh)
  rw [List.mem_map] at hh
  obtain ⟨k, hk, rfl⟩ := hh
  have hk := mem_dedupKeys _ k hk
  rw [hc] at hk
  simp only [List.map_cons, List.map_nil, candKeys, List.flatMap_cons, List.flatMap_nil,
    List.append_nil, List.mem_map] at hk
  obtain ⟨x, hx, rfl⟩ := hk
  have hsome := lookupCand_isSome_of_mem hx
  cases hl : lookupCand (clauseCands false segs c) x.seg x.doc with
  | none => simp [hl] at hsome
  | some sc =>
    obtain ⟨y, hy, h1, h2, h3⟩ := lookupCand_some hl
    obtain ⟨sg, d, raw, g1, g2, _, _, _, _, g7, g8⟩ := clauseCands_ok false segs c y hy
    refine ⟨sg, d, raw, by rw [← h1]; exact g1, by rw [← h2]; exact g2, g7, ?_, ?_⟩
    · simp only
      rw [hybridScore_vectorScore, hc]
      simp [hybridAcc, hl, ← h3, g8]
    · simp only
      rw [hybridScore_final, hc]
      simp [hybridAcc, hl, ← h3, g8]

/-- every hit's `score`/`vector_score` are `compute_hybrid_score` of its key (any number of
clauses): average over the clauses of the clause blend, vector part = sum over the clauses
whose candidate list holds the document -/
theorem hybrid_score_def (p : Plan κ S) (segs : List (Segment κ S)) (limit : Nat)
    (h : Hit S) (hh : h ∈ searchHybrid p segs limit) :
    let th := textHits segs (max p.candidateSize limit + 1)
    let hs := hybridScore p (p.clauses.map (clauseCands true segs))
      ((lookupCand th h.seg h.doc).getD zero) h.seg h.doc
    h.score = hs.final ∧ h.vectorScore = hs.vectorScore := by
  unfold searchHybrid at hh
  have hh := (mem_isort _ _ _).mp (List.mem_of_mem_take hh)
  rw [List.mem_filterMap] at hh
  obtain ⟨k, _, hf⟩ := hh
  simp only at hf
  split at hf
  · simp at hf
  · simp only [Option.some.injEq] at hf
    subst hf
    exact ⟨rfl, rfl⟩

theorem vector_only_score_def (p : Plan κ S) (segs : List (Segment κ S)) (limit : Nat)
    (h : Hit S) (hh : h ∈ searchVectorOnly p segs limit) :
    let hs := hybridScore p (p.clauses.map (clauseCands false segs)) zero h.seg h.doc
    h.score = hs.final ∧ h.vectorScore = hs.vectorScore := by
  unfold searchVectorOnly at hh
  have hh := (mem_isort _ _ _).mp (List.mem_of_mem_take hh)
  rw [List.mem_map] at hh
  obtain ⟨k, _, rfl⟩ := hh
  exact ⟨rfl, rfl⟩

/-! ## 3. order -/

/-- the laws of `f32::total_cmp` the order theorems rely on: a strict total order -/
class TltLaws (S : Type) [Scalar S] : Prop where
  irrefl : ∀ a : S, tlt a a = false
  trans : ∀ a b c : S, tlt a b = true → tlt b c = true → tlt a c = true
  total : ∀ a b : S, a ≠ b → tlt a b = true ∨ tlt b a = true

theorem tlt_asymm [TltLaws S] {a b : S} (h : tlt a b = true) : tlt b a = false := by
  cases hba : tlt b a with
  | false => rfl
  | true =>
    have := TltLaws.trans a b a h hba
    rw [TltLaws.irrefl] at this
    exact absurd this (by simp)

theorem tlt_eq_of_not [TltLaws S] {a b : S} (h1 : tlt a b = false) (h2 : tlt b a = false) : a = b := by
  by_cases h : a = b
  · exact h
  · rcases TltLaws.total a b h with h | h
    · rw [h1] at h; exact absurd h (by simp)
    · rw [h2] at h; exact absurd h (by simp)

theorem Hit.before_irrefl [TltLaws S] (a : Hit S) : Hit.before a a = false := by
  simp [Hit.before, TltLaws.irrefl]

theorem Hit.before_trans [TltLaws S] (a b c : Hit S)
    (hab : Hit.before a b = true) (hbc : Hit.before b c = true) : Hit.before a c = true := by
  unfold Hit.before at hab hbc ⊢
  cases h1 : tlt b.score a.score <;> cases h2 : tlt c.score b.score
  · -- a, b tie on score or a < b (excluded); b, c likewise
    simp only [h1, h2, Bool.false_eq_true, if_false] at hab hbc
    cases h3 : tlt a.score b.score
    · cases h4 : tlt b.score c.score
      · have e1 := tlt_eq_of_not h3 h1
        have e2 := tlt_eq_of_not h4 h2
        simp only [h3, h4, Bool.false_eq_true, if_false] at hab hbc
        rw [e1, e2]
        simp only [TltLaws.irrefl, Bool.false_eq_true, if_false]
        by_cases s1 : a.seg < b.seg
        · by_cases s2 : b.seg < c.seg
          · have : a.seg < c.seg := by omega
            simp [this]
          · simp only [s2, if_false] at hbc
            by_cases s3 : c.seg < b.seg
            · simp [s3] at hbc
            · have : a.seg < c.seg := by omega
              simp [this]
        · simp only [s1, if_false] at hab
          by_cases s4 : b.seg < a.seg
          · simp [s4] at hab
          · simp only [s4, if_false, decide_eq_true_eq] at hab
            by_cases s2 : b.seg < c.seg
            · have : a.seg < c.seg := by omega
              simp [this]
            · simp only [s2, if_false] at hbc
              by_cases s3 : c.seg < b.seg
              · simp [s3] at hbc
              · simp only [s3, if_false, decide_eq_true_eq] at hbc
                have n1 : ¬ a.seg < c.seg := by omega
                have n2 : ¬ c.seg < a.seg := by omega
                simp only [n1, n2, if_false, decide_eq_true_eq]
                omega
      · simp [h4] at hbc
    · simp [h3] at hab
  · -- c.score < b.score, and a, b tie: c.score < a.score
    simp only [h1, Bool.false_eq_true, if_false] at hab
    cases h3 : tlt a.score b.score
    · have e1 := tlt_eq_of_not h3 h1
      rw [e1]; simp [h2]
    · simp [h3] at hab
  · -- b.score < a.score, and b, c tie
    simp only [h2, Bool.false_eq_true, if_false] at hbc
    cases h4 : tlt b.score c.score
    · have e2 := tlt_eq_of_not h4 h2
      rw [← e2]; simp [h1]
    · simp [h4] at hbc
  · have := TltLaws.trans _ _ _ h2 h1
    simp [this]

/-- **hybrid_order**: the hits of a vector-only or hybrid request are sorted by the sort key
(blended score descending under `total_cmp`, then segment, then doc id); in particular the
blended scores never increase along the list. -/
theorem hybrid_order [TltLaws S] (p : Plan κ S) (segs : List (Segment κ S)) (limit : Nat) :
    (searchVectorOnly p segs limit).Pairwise (fun a b => Hit.before b a = false) ∧
    (searchHybrid p segs limit).Pairwise (fun a b => Hit.before b a = false) := by
  constructor
  · unfold searchVectorOnly
    exact List.Pairwise.sublist (List.take_sublist _ _)
      (isort_pairwise Hit.before_irrefl Hit.before_trans _)
  · unfold searchHybrid
    exact List.Pairwise.sublist (List.take_sublist _ _)
      (isort_pairwise Hit.before_irrefl Hit.before_trans _)

theorem not_before_score {a b : Hit S} (h : Hit.before b a = false) : tlt a.score b.score = false := by
  unfold Hit.before at h
  cases h1 : tlt a.score b.score
  · rfl
  · simp [h1] at h

/-- scores are non-increasing along the hit list -/
theorem hybrid_order_scores [TltLaws S] (p : Plan κ S) (segs : List (Segment κ S)) (limit : Nat) :
    (searchVectorOnly p segs limit).Pairwise (fun a b => tlt a.score b.score = false) ∧
    (searchHybrid p segs limit).Pairwise (fun a b => tlt a.score b.score = false) := by
  obtain ⟨h1, h2⟩ := hybrid_order p segs limit
  exact ⟨h1.imp not_before_score, h2.imp not_before_score⟩

/-! ## 4. wrong dimension ⇒ rejected -/

theorem planClause_dim (schema : List (VField κ)) (limit : Nat) (vo : Bool) (vq : VQuery κ S)
    (vf : VField κ) (hf : findField schema vq.field = some vf) (hd : vq.vector.length ≠ vf.dim) :
    planClause schema limit vo vq = .error .dim := by
  unfold planClause
  simp [hf, hd]

theorem planClauses_dim (schema : List (VField κ)) (limit : Nat) (vo : Bool) :
    ∀ (vqs : List (VQuery κ S)) (vq : VQuery κ S) (vf : VField κ), vq ∈ vqs →
      findField schema vq.field = some vf → vq.vector.length ≠ vf.dim →
      ∃ e, planClauses schema limit vo vqs = .error e := by
  intro vqs
  induction vqs with
  | nil => intro vq vf h; simp at h
  | cons w ws ih =>
    intro vq vf hm hf hd
    unfold planClauses
    rcases List.mem_cons.mp hm with rfl | hm
    · rw [planClause_dim schema limit vo vq vf hf hd]
      exact ⟨_, rfl⟩
    · cases hw : planClause schema limit vo w with
      | error e => exact ⟨e, rfl⟩
      | ok c =>
        obtain ⟨e, he⟩ := ih vq vf hm hf hd
        simp only [he]
        exact ⟨e, rfl⟩

/-- the vector clauses a request is planned from: the query tree's vector nodes, else the
top-level `vector_query` -/
def requestClauses (r : Req κ S) : List (VQuery κ S) :=
  if !(findVectors r).1.isEmpty then (findVectors r).1
  else match r.vectorQuery with
    | some v => [v]
    | none => []

/-- **wrong_dim_rejected**: if any vector clause of the request names a vector field of the
schema and its vector has another length than the field's dimension, the request is rejected
(`build_vector_plan` returns an error; nothing is searched). -/
theorem wrong_dim_rejected (schema : List (VField κ)) (segs : List (Segment κ S)) (r : Req κ S)
    (vq : VQuery κ S) (vf : VField κ) (hm : vq ∈ requestClauses r)
    (hf : findField schema vq.field = some vf) (hd : vq.vector.length ≠ vf.dim) :
    (∃ e, buildPlan schema r = .error e) ∧ ∃ e, searchReq schema segs r = .error e := by
  have key : ∃ e, buildPlan schema r = .error e := by
    unfold buildPlan
    simp only
    split
    · exact ⟨_, rfl⟩
    · rename_i hboth
      unfold requestClauses at hm
      by_cases hne : (!(findVectors r).1.isEmpty) = true
      · simp only [hne, if_true] at hm ⊢
        split
        · exact ⟨_, rfl⟩
        · obtain ⟨e, he⟩ := planClauses_dim schema r.limit (!(findVectors r).2) _ vq vf hm hf hd
          simp only [he]
          exact ⟨e, rfl⟩
      · have hne' : (!(findVectors r).1.isEmpty) = false := by simpa using hne
        simp only [hne', Bool.false_eq_true, if_false] at hm ⊢
        cases hv : r.vectorQuery with
        | none => simp [hv] at hm
        | some v =>
          simp only [hv, List.mem_singleton] at hm
          subst hm
          simp only
          split
          · exact ⟨_, rfl⟩
          · obtain ⟨e, he⟩ := planClauses_dim schema r.limit (!(findVectors r).2) [vq] vq vf (by simp) hf hd
            simp only [he]
            exact ⟨e, rfl⟩
  refine ⟨key, ?_⟩
  obtain ⟨e, he⟩ := key
  exact ⟨e, by unfold searchReq; simp [he]⟩

end

end SL.Vec
