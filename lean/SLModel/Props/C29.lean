import SLModel.Core.Vector
import SLModel.Lemmas.Vector
import SLModel.Lemmas.VectorTop
/-!
# C29 — vector and hybrid search return correctly scored, filtered hits

Model: `SLModel/Core/Vector.lean` (`SL.Vec.searchReq` and its parts).  All statements hold for
every scalar type `S` with the operations of `Scalar S` (the driver runs the same definitions
on `Float32`); the ones about *order* assume that `tlt` (the model's `f32::total_cmp`) is a
strict total order (`TltLaws`), the algebraic ones are stated over `Rat`.

Tie to the code: `harness/src/props/c29.rs` runs the real index / `HnswIndex` and `Drv/C29`
on the same inputs (hits, scores bit for bit, graph files), and evaluates the property
predicates below on the implementation alone with brute-force neighbours.
-/
set_option linter.unusedSectionVars false
namespace SL.Vec
open Scalar

section
variable {S : Type} [Scalar S] {κ : Type} [DecidableEq κ]

/-! ## 1. hits are live, filtered documents that have a vector -/

/-- document `(seg, doc)` is live, passes `filter` and `vector_filter` (and the text matcher
when `requireText`) and has a vector in the field of clause `c` -/
def Eligible (requireText : Bool) (segs : List (Segment κ S)) (c : Clause κ S) (seg doc : Nat) : Prop :=
  ∃ sg d raw, segs[seg]? = some sg ∧ sg[doc]? = some d ∧ d.deleted = false ∧
    d.passFilter = true ∧ d.passVFilter = true ∧ (requireText = true → d.textMatch = true) ∧
    d.rawVec c.field = some raw

theorem candOK_eligible {rt : Bool} {segs : List (Segment κ S)} {c : Clause κ S} {x : Cand S}
    (h : CandOK rt segs c x) : Eligible rt segs c x.seg x.doc := by
  obtain ⟨sg, d, raw, h1, h2, h3, h4, h5, h6, h7, _⟩ := h
  exact ⟨sg, d, raw, h1, h2, h3, h4, h5, h6, h7⟩

/-- a key of the candidate maps belongs to an eligible document of some clause -/
theorem candKeys_eligible (rt : Bool) (p : Plan κ S) (segs : List (Segment κ S)) (k : Nat × Nat)
    (hk : k ∈ candKeys (p.clauses.map (clauseCands rt segs))) :
    ∃ c ∈ p.clauses, Eligible rt segs c k.1 k.2 := by
  unfold candKeys at hk
  rw [List.mem_flatMap] at hk
  obtain ⟨m, hm, hk⟩ := hk
  rw [List.mem_map] at hm hk
  obtain ⟨c, hc, rfl⟩ := hm
  obtain ⟨x, hx, rfl⟩ := hk
  exact ⟨c, hc, candOK_eligible (clauseCands_ok rt segs c x hx)⟩

/-- **vector_hits_filtered** (vector-only requests): every hit is a live document that passes
`filter` and `vector_filter` and has a vector in the field of one of the clauses. -/
theorem vector_hits_filtered (p : Plan κ S) (segs : List (Segment κ S)) (limit : Nat)
    (h : Hit S) (hh : h ∈ searchVectorOnly p segs limit) :
    ∃ c ∈ p.clauses, Eligible false segs c h.seg h.doc := by
  unfold searchVectorOnly at hh
  have hh := (mem_isort _ _ _).mp (List.mem_of_mem_take hh)
  rw [List.mem_map] at hh
  obtain ⟨k, hk, rfl⟩ := hh
  exact candKeys_eligible false p segs k (mem_dedupKeys _ k hk)

/-- every hit of a vector-only request carries a `vector_score` -/
theorem vector_only_hits_have_vector_score (p : Plan κ S) (segs : List (Segment κ S)) (limit : Nat)
    (h : Hit S) (hh : h ∈ searchVectorOnly p segs limit) : h.vectorScore.isSome = true := by
  unfold searchVectorOnly at hh
  have hh := (mem_isort _ _ _).mp (List.mem_of_mem_take hh)
  rw [List.mem_map] at hh
  obtain ⟨k, hk, rfl⟩ := hh
  have hk := mem_dedupKeys _ k hk
  unfold candKeys at hk
  rw [List.mem_flatMap] at hk
  obtain ⟨m, hm, hkm⟩ := hk
  rw [List.mem_map] at hkm
  obtain ⟨x, hx, rfl⟩ := hkm
  have hpos := hybridAcc_of_mem (κ := κ) (zero : S) x.seg x.doc p.clauses
    (p.clauses.map (clauseCands false segs)) (zero, zero, false) m x (by simp) hm hx rfl rfl
  simp only
  rw [hybridScore_vectorScore]
  simp [hpos]

/-- **vector_hits_filtered** (hybrid requests): a hit that carries a `vector_score` is an
eligible candidate (live, filters, vector present, text match) of some clause; a hit without
one is a text hit of its segment. -/
theorem hybrid_hits_filtered (p : Plan κ S) (segs : List (Segment κ S)) (limit : Nat)
    (h : Hit S) (hh : h ∈ searchHybrid p segs limit) :
    (h.vectorScore.isSome → ∃ c ∈ p.clauses, Eligible true segs c h.seg h.doc) ∧
    (h.vectorScore = none → ∃ sg d, segs[h.seg]? = some sg ∧ sg[h.doc]? = some d ∧ d.bm25.isSome) := by
  unfold searchHybrid at hh
  have hh := (mem_isort _ _ _).mp (List.mem_of_mem_take hh)
  rw [List.mem_filterMap] at hh
  obtain ⟨k, hk, hf⟩ := hh
  simp only at hf
  split at hf
  · simp at hf
  · simp only [Option.some.injEq] at hf
    subst hf
    simp only
    -- has_vector ↔ some clause map holds the key
    have hv : ∀ bm25 : S, (hybridScore p (p.clauses.map (clauseCands true segs)) bm25 k.1 k.2).hasVector = true →
        ∃ c ∈ p.clauses, Eligible true segs c k.1 k.2 := by
      intro bm25 hhv
      rw [hybridScore_hasVector] at hhv
      rcases hybridAcc_hasVector bm25 k.1 k.2 p.clauses (p.clauses.map (clauseCands true segs))
        (zero, zero, false) hhv with h0 | ⟨q, hq, hs⟩
      · simp at h0
      · obtain ⟨c, m⟩ := q
        have hcm := List.of_mem_zip hq
        have hm : m = clauseCands true segs c := by
          obtain ⟨i, hi, hget⟩ := List.mem_iff_getElem.mp hq
          simp only [List.getElem_zip, List.getElem_map, Prod.mk.injEq] at hget
          rw [← hget.1, ← hget.2]
        subst hm
        cases hl : lookupCand (clauseCands true segs c) k.1 k.2 with
        | none => simp [hl] at hs
        | some sc =>
          obtain ⟨x, hx, h1, h2, _⟩ := lookupCand_some hl
          have := candOK_eligible (clauseCands_ok true segs c x hx)
          rw [h1, h2] at this
          exact ⟨c, hcm.1, this⟩
    have hvs : ∀ bm25 : S, (hybridScore p (p.clauses.map (clauseCands true segs)) bm25 k.1 k.2).vectorScore.isSome →
        (hybridScore p (p.clauses.map (clauseCands true segs)) bm25 k.1 k.2).hasVector = true := by
      intro bm25 h
      rw [hybridScore_vectorScore] at h
      rw [hybridScore_hasVector]
      split at h
      · assumption
      · simp at h
    constructor
    · intro hsome
      exact hv _ (hvs _ hsome)
    · intro hnone
      -- the key comes from a text hit or from a candidate map; the latter has a vector score
      rcases List.mem_append.mp (mem_dedupKeys _ k hk) with hth | hck
      · rw [List.mem_map] at hth
        obtain ⟨x, hx, rfl⟩ := hth
        unfold textHits at hx
        rw [List.mem_flatMap] at hx
        obtain ⟨⟨i, sg⟩, hp, hx⟩ := hx
        have hx := (mem_isort _ _ _).mp (List.mem_of_mem_take hx)
        rw [List.mem_filterMap] at hx
        obtain ⟨⟨j, d⟩, hq, hx⟩ := hx
        obtain ⟨_, hsg⟩ := mem_enumFrom segs 0 i sg hp
        obtain ⟨_, hd⟩ := mem_enumFrom sg 0 j d hq
        simp only at hx
        cases hb : d.bm25 with
        | none => simp [hb] at hx
        | some sc =>
          simp only [hb, Option.some.injEq] at hx
          subst hx
          exact ⟨sg, d, by simpa using hsg, by simpa using hd, by simp [hb]⟩
      · exfalso
        -- a key of a candidate map always yields has_vector = true
        unfold candKeys at hck
        rw [List.mem_flatMap] at hck
        obtain ⟨m, hm, hkm⟩ := hck
        rw [List.mem_map] at hkm
        obtain ⟨x, hx, rfl⟩ := hkm
        have hpos := hybridAcc_of_mem (κ := κ) ((lookupCand (textHits segs (max p.candidateSize limit + 1)) x.seg x.doc).getD zero)
          x.seg x.doc p.clauses (p.clauses.map (clauseCands true segs)) (zero, zero, false) m x
          (by simp) hm hx rfl rfl
        rw [hybridScore_vectorScore] at hnone
        simp [hpos] at hnone

/-! ## 2. `vector_score` and `score` are what the documentation says -/

/-- **vector_score_def** (vector-only request with one clause): the hit's `vector_score` is the
similarity between the prepared query and the prepared stored vector (cosine: both
normalised, dot product; L2: negated distance) times the clause boost (added to the `0.0`
the accumulator starts from), and `score` is the clause's blend of it with a zero text score. -/
theorem vector_score_def (p : Plan κ S) (c : Clause κ S) (hc : p.clauses = [c])
    (segs : List (Segment κ S)) (limit : Nat) (h : Hit S) (hh : h ∈ searchVectorOnly p segs limit) :
    ∃ sg d raw, segs[h.seg]? = some sg ∧ sg[h.doc]? = some d ∧ d.rawVec c.field = some raw ∧
      h.vectorScore = some (add zero (mul (metricSim c.metric c.vector (prep c.metric raw)) c.boost)) ∧
      h.score = div (add zero (blendClause zero c
        (some (mul (metricSim c.metric c.vector (prep c.metric raw)) c.boost)))) (ofNat 1) := by
  unfold searchVectorOnly at hh
  have hh := (mem_isort _ _ _).mp (List.mem_of_mem_take hh)
  rw [List.mem_map] at hh
  obtain ⟨k, hk, rfl⟩ := hh
  have hk := mem_dedupKeys _ k hk
  rw [hc] at hk
  simp only [List.map_cons, List.map_nil, candKeys, List.flatMap_cons, List.flatMap_nil,
    List.append_nil, List.mem_map] at hk
  obtain ⟨x, hx, rfl⟩ := hk
  have hsome := lookupCand_isSome_of_mem hx
  cases hl : lookupCand (clauseCands false segs c) x.seg x.doc with
  | none => simp [hl] at hsome
  | some sc =>
    obtain ⟨y, hy, h1, h2, h3⟩ := lookupCand_some hl
    obtain ⟨sg, d, raw, g1, g2, _, _, _, _, g7, g8⟩ := clauseCands_ok false segs c y hy
    refine ⟨sg, d, raw, by rw [← h1]; exact g1, by rw [← h2]; exact g2, g7, ?_, ?_⟩
    · simp only
      rw [hybridScore_vectorScore, hc]
      simp [hybridAcc, hl, ← h3, g8]
    · simp only
      rw [hybridScore_final, hc]
      simp [hybridAcc, hl, ← h3, g8]

/-- every hit's `score`/`vector_score` are `compute_hybrid_score` of its key (any number of
clauses): average over the clauses of the clause blend, vector part = sum over the clauses
whose candidate list holds the document -/
theorem hybrid_score_def (p : Plan κ S) (segs : List (Segment κ S)) (limit : Nat)
    (h : Hit S) (hh : h ∈ searchHybrid p segs limit) :
    let th := textHits segs (max p.candidateSize limit + 1)
    let hs := hybridScore p (p.clauses.map (clauseCands true segs))
      ((lookupCand th h.seg h.doc).getD zero) h.seg h.doc
    h.score = hs.final ∧ h.vectorScore = hs.vectorScore := by
  unfold searchHybrid at hh
  have hh := (mem_isort _ _ _).mp (List.mem_of_mem_take hh)
  rw [List.mem_filterMap] at hh
  obtain ⟨k, _, hf⟩ := hh
  simp only at hf
  split at hf
  · simp at hf
  · simp only [Option.some.injEq] at hf
    subst hf
    exact ⟨rfl, rfl⟩

theorem vector_only_score_def (p : Plan κ S) (segs : List (Segment κ S)) (limit : Nat)
    (h : Hit S) (hh : h ∈ searchVectorOnly p segs limit) :
    let hs := hybridScore p (p.clauses.map (clauseCands false segs)) zero h.seg h.doc
    h.score = hs.final ∧ h.vectorScore = hs.vectorScore := by
  unfold searchVectorOnly at hh
  have hh := (mem_isort _ _ _).mp (List.mem_of_mem_take hh)
  rw [List.mem_map] at hh
  obtain ⟨k, _, rfl⟩ := hh
  exact ⟨rfl, rfl⟩

/-! ## 3. order -/

theorem Hit.before_irrefl [TltLaws S] (a : Hit S) : Hit.before a a = false := by
  simp [Hit.before, TltLaws.irrefl]

theorem Hit.before_trans [TltLaws S] (a b c : Hit S)
    (hab : Hit.before a b = true) (hbc : Hit.before b c = true) : Hit.before a c = true := by
  unfold Hit.before at hab hbc ⊢
  cases h1 : tlt b.score a.score <;> cases h2 : tlt c.score b.score
  · -- a, b tie on score or a < b (excluded); b, c likewise
    simp only [h1, h2, Bool.false_eq_true, if_false] at hab hbc
    cases h3 : tlt a.score b.score
    · cases h4 : tlt b.score c.score
      · have e1 := tlt_eq_of_not h3 h1
        have e2 := tlt_eq_of_not h4 h2
        simp only [h3, h4, Bool.false_eq_true, if_false] at hab hbc
        rw [e1, e2]
        simp only [TltLaws.irrefl, Bool.false_eq_true, if_false]
        by_cases s1 : a.seg < b.seg
        · by_cases s2 : b.seg < c.seg
          · have : a.seg < c.seg := by omega
            simp [this]
          · simp only [s2, if_false] at hbc
            by_cases s3 : c.seg < b.seg
            · simp [s3] at hbc
            · have : a.seg < c.seg := by omega
              simp [this]
        · simp only [s1, if_false] at hab
          by_cases s4 : b.seg < a.seg
          · simp [s4] at hab
          · simp only [s4, if_false, decide_eq_true_eq] at hab
            by_cases s2 : b.seg < c.seg
            · have : a.seg < c.seg := by omega
              simp [this]
            · simp only [s2, if_false] at hbc
              by_cases s3 : c.seg < b.seg
              · simp [s3] at hbc
              · simp only [s3, if_false, decide_eq_true_eq] at hbc
                have n1 : ¬ a.seg < c.seg := by omega
                have n2 : ¬ c.seg < a.seg := by omega
                simp only [n1, n2, if_false, decide_eq_true_eq]
                omega
      · simp [h4] at hbc
    · simp [h3] at hab
  · -- c.score < b.score, and a, b tie: c.score < a.score
    simp only [h1, Bool.false_eq_true, if_false] at hab
    cases h3 : tlt a.score b.score
    · have e1 := tlt_eq_of_not h3 h1
      rw [e1]; simp [h2]
    · simp [h3] at hab
  · -- b.score < a.score, and b, c tie
    simp only [h2, Bool.false_eq_true, if_false] at hbc
    cases h4 : tlt b.score c.score
    · have e2 := tlt_eq_of_not h4 h2
      rw [← e2]; simp [h1]
    · simp [h4] at hbc
  · have := TltLaws.trans _ _ _ h2 h1
    simp [this]

/-- **hybrid_order**: the hits of a vector-only or hybrid request are sorted by the sort key
(blended score descending under `total_cmp`, then segment, then doc id); in particular the
blended scores never increase along the list. -/
theorem hybrid_order [TltLaws S] (p : Plan κ S) (segs : List (Segment κ S)) (limit : Nat) :
    (searchVectorOnly p segs limit).Pairwise (fun a b => Hit.before b a = false) ∧
    (searchHybrid p segs limit).Pairwise (fun a b => Hit.before b a = false) := by
  constructor
  · unfold searchVectorOnly
    exact List.Pairwise.sublist (List.take_sublist _ _)
      (isort_pairwise Hit.before_irrefl Hit.before_trans _)
  · unfold searchHybrid
    exact List.Pairwise.sublist (List.take_sublist _ _)
      (isort_pairwise Hit.before_irrefl Hit.before_trans _)

theorem not_before_score {a b : Hit S} (h : Hit.before b a = false) : tlt a.score b.score = false := by
  unfold Hit.before at h
  cases h1 : tlt a.score b.score
  · rfl
  · simp [h1] at h

/-- scores are non-increasing along the hit list -/
theorem hybrid_order_scores [TltLaws S] (p : Plan κ S) (segs : List (Segment κ S)) (limit : Nat) :
    (searchVectorOnly p segs limit).Pairwise (fun a b => tlt a.score b.score = false) ∧
    (searchHybrid p segs limit).Pairwise (fun a b => tlt a.score b.score = false) := by
  obtain ⟨h1, h2⟩ := hybrid_order p segs limit
  exact ⟨h1.imp not_before_score, h2.imp not_before_score⟩

/-! ## 4. wrong dimension ⇒ rejected -/

theorem planClause_dim (schema : List (VField κ)) (limit : Nat) (vo : Bool) (vq : VQuery κ S)
    (vf : VField κ) (hf : findField schema vq.field = some vf) (hd : vq.vector.length ≠ vf.dim) :
    planClause schema limit vo vq = .error .dim := by
  unfold planClause
  simp [hf, hd]

theorem planClauses_dim (schema : List (VField κ)) (limit : Nat) (vo : Bool) :
    ∀ (vqs : List (VQuery κ S)) (vq : VQuery κ S) (vf : VField κ), vq ∈ vqs →
      findField schema vq.field = some vf → vq.vector.length ≠ vf.dim →
      ∃ e, planClauses schema limit vo vqs = .error e := by
  intro vqs
  induction vqs with
  | nil => intro vq vf h; simp at h
  | cons w ws ih =>
    intro vq vf hm hf hd
    unfold planClauses
    rcases List.mem_cons.mp hm with rfl | hm
    · rw [planClause_dim schema limit vo vq vf hf hd]
      exact ⟨_, rfl⟩
    · cases hw : planClause schema limit vo w with
      | error e => exact ⟨e, rfl⟩
      | ok c =>
        obtain ⟨e, he⟩ := ih vq vf hm hf hd
        simp only [he]
        exact ⟨e, rfl⟩

/-- the vector clauses a request is planned from: the query tree's vector nodes, else the
top-level `vector_query` -/
def requestClauses (r : Req κ S) : List (VQuery κ S) :=
  if !(findVectors r).1.isEmpty then (findVectors r).1
  else match r.vectorQuery with
    | some v => [v]
    | none => []

/-- **wrong_dim_rejected**: if any vector clause of the request names a vector field of the
schema and its vector has another length than the field's dimension, the request is rejected
(`build_vector_plan` returns an error; nothing is searched). -/
theorem wrong_dim_rejected (schema : List (VField κ)) (segs : List (Segment κ S)) (r : Req κ S)
    (vq : VQuery κ S) (vf : VField κ) (hm : vq ∈ requestClauses r)
    (hf : findField schema vq.field = some vf) (hd : vq.vector.length ≠ vf.dim) :
    (∃ e, buildPlan schema r = .error e) ∧ ∃ e, searchReq schema segs r = .error e := by
  have key : ∃ e, buildPlan schema r = .error e := by
    unfold buildPlan
    simp only
    split
    · exact ⟨_, rfl⟩
    · rename_i hboth
      unfold requestClauses at hm
      by_cases hne : (!(findVectors r).1.isEmpty) = true
      · simp only [hne, if_true] at hm ⊢
        split
        · exact ⟨_, rfl⟩
        · obtain ⟨e, he⟩ := planClauses_dim schema r.limit (!(findVectors r).2) _ vq vf hm hf hd
          simp only [he]
          exact ⟨e, rfl⟩
      · have hne' : (!(findVectors r).1.isEmpty) = false := by simpa using hne
        simp only [hne', Bool.false_eq_true, if_false] at hm ⊢
        cases hv : r.vectorQuery with
        | none => simp [hv] at hm
        | some v =>
          simp only [hv, List.mem_singleton] at hm
          subst hm
          simp only
          split
          · exact ⟨_, rfl⟩
          · obtain ⟨e, he⟩ := planClauses_dim schema r.limit (!(findVectors r).2) [vq] vq vf (by simp) hf hd
            simp only [he]
            exact ⟨e, rfl⟩
  refine ⟨key, ?_⟩
  obtain ⟨e, he⟩ := key
  exact ⟨e, by unfold searchReq; simp [he]⟩

/-! ## 5. exact nearest neighbours on small segments

Statement proved here, for every `ef_search`, `k`, `candidate_size` and every eligibility
predicate: if a segment holds at most `max m 1 + 1` vectors of the field, the constructed
graph is complete (`flat_graph_complete`), `HnswIndex::search` returns a best-`k` selection of
all nodes (`flat_graph_exact`: nothing left out is nearer than anything returned), and the
clause's candidates of the segment are the best `wanted = min(max(candidate_size,k), #vectors)`
*eligible* documents (`segment_candidates_exact`, `segment_candidates_complete`).  "Best" is up
to ties in the score: the heap keeps the earlier of two equal scores, so the exact list
(tie-break by id) is only claimed when the beam covers the segment (`flat_graph_exact_beam`).

The code before `9cbe548` / `520bc94` violated both (stale `worst_score`, filter after the
segment's top-k); those variants are kept as `legacySearch` / `legacySegCands` with the
kernel-checked witnesses `legacy_stale_worst_witness` / `legacy_postfilter_witness`. -/

/-- **flat_graph_exact, part 1**: on a store with at most `max m 1 + 1` vectors the constructed
graph is complete on the present nodes: the entry point is the first present node and every
present node is adjacent to every other one (no neighbour list was pruned). -/
theorem flat_graph_complete (mt : Metric) (st : Store S) (m efc : Nat)
    (h : (presentIds st).length ≤ max m 1 + 1) :
    (buildGraph mt st m efc).entry = (presentIds st).head? ∧
    ∀ a ∈ presentIds st, ((buildGraph mt st m efc).nbrsOf a).Perm ((presentIds st).erase a) := by
  have inv := buildGraph_inv mt st m efc h
  exact ⟨inv.entry, inv.adj⟩

/-- **flat_graph_exact, with the tie-break**: when additionally the beam covers the segment
(`max efSearch k ≥ number of vectors`) the result is literally the first `k` of the list of
all present nodes sorted by similarity, ties by id. -/
theorem flat_graph_exact_beam [TltLaws S] (mt : Metric) (st : Store S) (m efc : Nat)
    (q : List S) (k efs : Nat) (hreg : (presentIds st).length ≤ max m 1 + 1) (hk : 0 < k)
    (hef : (presentIds st).length ≤ max efs k) :
    search mt st (buildGraph mt st m efc) q k efs =
      (isort Scored.gt ((presentIds st).map (scOf mt st q))).take k := by
  have inv := buildGraph_inv mt st m efc hreg
  unfold search
  have hk0 : ¬ k = 0 := by omega
  simp only [hk0, if_false]
  congr 1
  cases hp : presentIds st with
  | nil =>
    rw [hp] at inv
    have he : (buildGraph mt st m efc).entry = none := by rw [inv.entry]; rfl
    simp [searchInternal, he, isort]
  | cons e P' =>
    rw [hp] at inv hef
    have hperm := searchInternal_complete mt st _ _ _ e P' inv q (max (max efs k) 1) (by omega)
    rw [isort_eq, isort_eq]
    exact SL.ISort.isort_perm scoredGt_strictTotal hperm

/-- **flat_graph_exact**: on a store with at most `max m 1 + 1` vectors, for every `k ≥ 1` and
every `ef_search`, `search` returns a best-`k` selection of the present nodes, best first:
`min k n` nodes, and no node left out has a higher similarity than a returned one. -/
theorem flat_graph_exact [OrdLaws S] (mt : Metric) (st : Store S) (m efc : Nat)
    (q : List S) (k efs : Nat) (hreg : (presentIds st).length ≤ max m 1 + 1) (hk : 1 ≤ k) :
    TopSel (search mt st (buildGraph mt st m efc) q k efs) ((presentIds st).map (scOf mt st q)) k ∧
    SortedDesc (search mt st (buildGraph mt st m efc) q k efs) :=
  search_top mt st _ _ _ _ (buildGraph_inv mt st m efc hreg) q k efs hk

/-- every clause the planner produces asks for at least one neighbour (`k = max(default_k, 1)`
capped by `MAX_VECTOR_K`), so the hypothesis `1 ≤ max candidate_size k` below always holds -/
theorem planClause_k_pos (schema : List (VField κ)) (limit : Nat) (vo : Bool) (vq : VQuery κ S)
    (c : Clause κ S) (h : planClause schema limit vo vq = .ok (some c)) : 1 ≤ c.k := by
  unfold planClause at h
  split at h
  · simp at h
  · simp only at h
    split at h
    · simp at h
    · split at h
      · simp at h
      · split at h
        · simp at h
        · split at h
          · simp at h
          · simp only [Except.ok.injEq, Option.some.injEq] at h
            subst h
            simp only [MAX_VECTOR_K]
            omega

/-- the per-segment request size of a clause -/
def wantedOf (c : Clause κ S) (seg : Segment κ S) : Nat :=
  min (max c.candidateSize c.k) (max (present (storeOf seg c.field c.metric)) 1)

/-- all vector documents of the segment with their similarity to the clause's query -/
def segScored (c : Clause κ S) (seg : Segment κ S) : List (Scored S) :=
  (presentIds (storeOf seg c.field c.metric)).map
    (scOf c.metric (storeOf seg c.field c.metric) c.vector)

/-- **exact candidates of a segment**: if the segment holds at most `max m 1 + 1` vectors of
the clause's field, then — whatever `ef_search`, `k`, `candidate_size`, deletions, `filter`,
`vector_filter` and text matcher are — the clause's candidates in that segment are a best-
`wanted` selection of the segment's *eligible* vector documents, best first, each with
similarity × boost.  (`1 ≤ max candidate_size k` holds for every planned clause.) -/
theorem segment_candidates_exact [OrdLaws S] (rt : Bool) (c : Clause κ S) (i : Nat)
    (seg : Segment κ S)
    (hreg : present (storeOf seg c.field c.metric) ≤ max c.m 1 + 1)
    (hk : 1 ≤ max c.candidateSize c.k) :
    ∃ K, segCands rt c i seg = K.map (fun s => { seg := i, doc := s.id, score := mul s.score c.boost }) ∧
      TopSel K ((segScored c seg).filter (fun s => keepDoc rt seg s.id)) (wantedOf c seg) ∧
      SortedDesc K := by
  unfold segCands
  simp only
  split
  · rename_i h0
    have hp : presentIds (storeOf seg c.field c.metric) = [] := by
      rw [present_eq] at h0; exact List.length_eq_zero_iff.mp h0
    refine ⟨[], rfl, ⟨by simp [segScored, hp], [], by simp [segScored, hp], by intro d hd; simp at hd⟩,
      List.Pairwise.nil⟩
  · rename_i h0
    have hreg' : (presentIds (storeOf seg c.field c.metric)).length ≤ max c.m 1 + 1 := by
      rw [← present_eq]; exact hreg
    have inv := buildGraph_inv c.metric (storeOf seg c.field c.metric) c.m c.efc hreg'
    have h := fetchLoop_top
      (fun k => search c.metric (storeOf seg c.field c.metric)
        (buildGraph c.metric (storeOf seg c.field c.metric) c.m c.efc) c.vector k c.efSearch)
      (fun s => keepDoc rt seg s.id) (segScored c seg)
      (min (max c.candidateSize c.k) (max (present (storeOf seg c.field c.metric)) 1))
      (present (storeOf seg c.field c.metric))
      (by simp [segScored, present_eq])
      (fun k hk1 => search_top c.metric _ _ _ _ _ inv c.vector k c.efSearch hk1)
      (present (storeOf seg c.field c.metric) + 1)
      (min (max c.candidateSize c.k) (max (present (storeOf seg c.field c.metric)) 1))
      (by omega) (by omega)
    exact ⟨_, rfl, h.1, h.2⟩

/-- plain reading: under the same hypothesis every eligible vector document of the segment
is a candidate, unless `wanted` candidates were found none of which is farther from the query -/
theorem segment_candidates_complete [OrdLaws S] (rt : Bool) (c : Clause κ S) (i : Nat)
    (seg : Segment κ S)
    (hreg : present (storeOf seg c.field c.metric) ≤ max c.m 1 + 1)
    (hk : 1 ≤ max c.candidateSize c.k)
    (doc : Nat) (hkeep : keepDoc rt seg doc = true)
    (hvec : (vecAt (storeOf seg c.field c.metric) doc).isSome) :
    (∃ x ∈ segCands rt c i seg, x.seg = i ∧ x.doc = doc) ∨
    ((segCands rt c i seg).length = wantedOf c seg ∧
      ∃ K : List (Scored S), segCands rt c i seg = K.map (fun s => { seg := i, doc := s.id, score := mul s.score c.boost }) ∧
        ∀ r ∈ K, tlt r.score (simOr c.metric (storeOf seg c.field c.metric) c.vector doc) = false) := by
  obtain ⟨K, hK, htop, _⟩ := segment_candidates_exact rt c i seg hreg hk
  obtain ⟨D, hp, hdom⟩ := htop.split
  have hmem : scOf c.metric (storeOf seg c.field c.metric) c.vector doc ∈
      (segScored c seg).filter (fun s => keepDoc rt seg s.id) := by
    rw [List.mem_filter]
    refine ⟨?_, by simpa [scOf] using hkeep⟩
    unfold segScored
    rw [List.mem_map]
    refine ⟨doc, ?_, rfl⟩
    unfold presentIds
    rw [List.mem_filter]
    exact ⟨List.mem_range.mpr (vecAt_lt hvec), hvec⟩
  rcases List.mem_append.mp (hp.mem_iff.mpr hmem) with h | h
  · left
    rw [hK]
    exact ⟨_, List.mem_map.mpr ⟨_, h, rfl⟩, rfl, rfl⟩
  · right
    have hlen : K.length = wantedOf c seg := by
      have h1 := htop.len
      have h2 := hp.length_eq
      simp only [List.length_append] at h2
      have : 0 < D.length := List.length_pos_of_mem h
      omega
    refine ⟨by rw [hK, List.length_map]; exact hlen, K, hK, ?_⟩
    intro r hr
    exact hdom _ h r hr

/-! ## 6. compaction never drops vectors

`compact()` of an index whose schema has a vector field is refused when there is anything to
merge and is a no-op otherwise, so every request sees the same segments afterwards.  The
legacy behaviour (re-ingest without vectors) is kept as `legacy_compact_drops_vectors` /
`Witness.legacy_compact_witness`. -/

/-- **compaction keeps the vectors**: with a vector field in the schema the segments a reader
sees after `compact()` are the segments before it -/
theorem compact_keeps_vectors (schema : List (VField κ)) (segs : List (Segment κ S))
    (h : schema ≠ []) : afterCompact schema segs = segs := by
  unfold afterCompact compact
  split
  · rfl
  · have : schema.isEmpty = false := by
      cases schema with
      | nil => exact absurd rfl h
      | cons a b => rfl
    simp [this]

/-- … hence every request (vector-only, hybrid, rejected) has the same outcome before and
after `compact()` -/
theorem compact_preserves_search (schema : List (VField κ)) (segs : List (Segment κ S))
    (r : Req κ S) (h : schema ≠ []) :
    searchReq schema (afterCompact schema segs) r = searchReq schema segs r := by
  rw [compact_keeps_vectors schema segs h]

/-- the call is refused exactly when there is more than one segment and a vector field -/
theorem compact_refused_iff (schema : List (VField κ)) (segs : List (Segment κ S)) :
    compact schema segs = none ↔ (1 < segs.length ∧ schema ≠ []) := by
  unfold compact
  by_cases h1 : segs.length ≤ 1
  · simp [h1]; omega
  · cases schema with
    | nil => simp [h1]
    | cons a b => simp [h1]; omega

/-- **legacy mechanism of the repaired defect** (`compact.vectors-dropped`): the old
`compact()` of more than one segment left no document with a vector, so no vector-only
request returned anything afterwards -/
theorem legacy_compact_drops_vectors (p : Plan κ S) (segs : List (Segment κ S)) (limit : Nat)
    (h : 1 < segs.length) : searchVectorOnly p (legacyCompactSegs segs) limit = [] := by
  cases hs : searchVectorOnly p (legacyCompactSegs segs) limit with
  | nil => rfl
  | cons hit rest =>
    exfalso
    obtain ⟨c, _, sg, d, raw, h1, h2, _, _, _, _, h7⟩ :=
      vector_hits_filtered p (legacyCompactSegs segs) limit hit (by rw [hs]; simp)
    unfold legacyCompactSegs reingest at h1
    have hn : ¬ segs.length ≤ 1 := by omega
    simp only [hn, if_false] at h1
    cases hseg : hit.seg with
    | zero =>
      simp only [hseg, List.getElem?_cons_zero, Option.some.injEq] at h1
      subst h1
      rw [List.getElem?_map] at h2
      obtain ⟨d0, _, hd0⟩ := Option.map_eq_some_iff.mp h2
      subst hd0
      simp [SDoc.rawVec] at h7
    | succ n => simp [hseg] at h1

end

/-! ## 7. instances, non-vacuity, negative witnesses -/

/-- integer scalars for kernel-checked examples (`sqrt` is the identity: the "L2" of this
instance is the negated *squared* distance, which orders neighbours the same way) -/
instance intScalar : Scalar Int where
  zero := 0
  nzero := 0
  one := 1
  add := (· + ·)
  sub := (· - ·)
  mul := (· * ·)
  div := (· / ·)
  neg := (- ·)
  sqrt := fun x => x
  lt a b := decide (a < b)
  le a b := decide (a ≤ b)
  tlt a b := decide (a < b)
  isNan _ := false
  isFinite _ := true
  fmin := -1000000
  ofNat n := (n : Int)

instance : TltLaws Int where
  irrefl a := by simp [Scalar.tlt]
  trans a b c := by simp only [Scalar.tlt, decide_eq_true_eq]; omega
  total a b h := by simp only [Scalar.tlt, decide_eq_true_eq]; omega

instance : OrdLaws Int where
  lt_eq_tlt _ _ := rfl

namespace Witness

/-- three 1-dimensional vectors 0, 4, −11 (ids 0, 1, 2), default graph parameters -/
def st3 : Store Int := [some [0], some [4], some [-11]]

/-- non-vacuity of `flat_graph_complete`/`flat_graph_exact_beam`: the graph on `st3` is the
triangle, and a search with a beam of 3 returns the exact top-2 for the query −4 -/
example : (buildGraph .l2 st3 16 64).nbrs = [[1, 2], [0, 2], [0, 1]] := by decide
example : (search .l2 st3 (buildGraph .l2 st3 16 64) [-4] 2 3).map (·.id) = [0, 2] := by decide

/-- **legacy negative witness (stale `worst_score`, repaired by `9cbe548`)**: 3 vectors ≤ m = 16,
so the graph is complete, but the old search with `k = 2`, `ef_search = 1` (beam 2 < 3
vectors) returned nodes 0 and 1 although node 2 is nearer to the query than node 1: the bound
was read before the neighbour loop and the better neighbour 2 was rejected against the entry
point's score.  The repaired search returns 0 and 2 (non-vacuity of `flat_graph_exact`). -/
theorem legacy_stale_worst_witness :
    (legacySearch .l2 st3 (buildGraph .l2 st3 16 64) [-4] 2 1).map (·.id) = [0, 1] ∧
    (search .l2 st3 (buildGraph .l2 st3 16 64) [-4] 2 1).map (·.id) = [0, 2] ∧
    ((isort Scored.gt ((presentIds st3).map (scOf .l2 st3 [-4]))).take 2).map (·.id) = [0, 2] := by
  decide

def field0 : VField Nat := { name := 0, dim := 1, metric := .l2, m := 16, efc := 64 }

/-- one segment: document 0 (vector 0) fails `filter`, document 1 (vector 20) passes -/
def segs2 : List (Segment Nat Int) :=
  [[{ deleted := false, passFilter := false, passVFilter := true, textMatch := false, bm25 := none, vecs := [(0, [0])] },
    { deleted := false, passFilter := true, passVFilter := true, textMatch := false, bm25 := none, vecs := [(0, [20])] }]]

/-- `{"type":"vector","field":0,"vector":[0],"k":1,"candidate_size":1,"alpha":0}`, limit 1 -/
def req1 : Req Nat Int :=
  { query := some (.vector { field := 0, vector := [0], k := some 1, alpha := some 0, efSearch := none,
                             candidateSize := some 1, boost := none }),
    vectorQuery := none, limit := 1, candidateSize := none }

/-- the same clause with `candidate_size = 2` -/
def req2 : Req Nat Int :=
  { query := some (.vector { field := 0, vector := [0], k := some 1, alpha := some 0, efSearch := none,
                             candidateSize := some 2, boost := none }),
    vectorQuery := none, limit := 1, candidateSize := none }

/-- default knobs, limit 5 -/
def req5 : Req Nat Int :=
  { query := some (.vector { field := 0, vector := [0], k := none, alpha := some 0, efSearch := none,
                             candidateSize := none, boost := none }),
    vectorQuery := none, limit := 5, candidateSize := none }

/-- a 2-dimensional query for the 1-dimensional field -/
def reqBadDim : Req Nat Int :=
  { query := some (.vector { field := 0, vector := [0, 1], k := none, alpha := none, efSearch := none,
                             candidateSize := none, boost := none }),
    vectorQuery := none, limit := 5, candidateSize := none }

/-- text query plus `vector_query` with alpha = 1 (pure BM25) -/
def reqText : Req Nat Int :=
  { query := none,
    vectorQuery := some { field := 0, vector := [0], k := none, alpha := some 1, efSearch := none,
                          candidateSize := none, boost := none },
    limit := 5, candidateSize := none }

/-- text query plus `vector_query` with alpha = 0 -/
def reqHybrid : Req Nat Int :=
  { query := none,
    vectorQuery := some { field := 0, vector := [0], k := none, alpha := some 0, efSearch := none,
                          candidateSize := none, boost := none },
    limit := 5, candidateSize := none }

def outcomeDocs : Outcome Int → Option (List (Nat × Nat))
  | .hits _ l => some (l.map (fun h => (h.seg, h.doc)))
  | _ => none

/-- non-vacuity of `vector_hits_filtered`/`vector_score_def`: with `candidate_size = 2` the
request finds the eligible document -/
example : outcomeDocs (searchReq [field0] segs2 req2) = some [(0, 1)] := by decide

/-- the planned clause of `req1` -/
def clause1 : Clause Nat Int :=
  { field := 0, vector := [0], k := 1, alpha := 0, efSearch := 40, candidateSize := 1, boost := 1,
    metric := .l2, m := 16, efc := 64 }

/-- **legacy negative witness (filter after the per-segment top-k, repaired by `520bc94`)**: the
segment holds 2 ≤ m vectors, the request asks for the single nearest neighbour that passes the
filter; the old code took the segment's top-1 (document 0), the filter removed it, and the
eligible document 1 was never considered.  The repaired fetch loop finds it (non-vacuity of
`segment_candidates_exact`), and so does the whole request. -/
theorem legacy_postfilter_witness :
    (legacySegCands false clause1 0 (segs2.getD 0 [])).map (·.doc) = [] ∧
    (segCands false clause1 0 (segs2.getD 0 [])).map (·.doc) = [1] ∧
    outcomeDocs (searchReq [field0] segs2 req1) = some [(0, 1)] ∧
    keepDoc false (segs2.getD 0 []) 1 = true ∧
    (vecAt (storeOf (segs2.getD 0 []) 0 .l2) 1).isSome = true := by
  decide

/-- two segments with one vector document each -/
def segs11 : List (Segment Nat Int) :=
  [[{ deleted := false, passFilter := true, passVFilter := true, textMatch := false, bm25 := none, vecs := [(0, [1])] }],
   [{ deleted := false, passFilter := true, passVFilter := true, textMatch := false, bm25 := none, vecs := [(0, [3])] }]]

/-- **legacy negative witness (compaction, repaired by `01a6290`)**: the same request returned
two hits before the old `compact()` and none after it -/
theorem legacy_compact_witness :
    outcomeDocs (searchReq [field0] segs11 req5) = some [(0, 0), (1, 0)] ∧
    outcomeDocs (searchReq [field0] (legacyCompactSegs segs11) req5) = some [] := by
  decide

/-- non-vacuity of `compact_keeps_vectors`/`compact_refused_iff`: the repaired `compact()` is
refused on the two segments and the request still finds both documents -/
example : (compact [field0] segs11).isNone = true ∧
    outcomeDocs (searchReq [field0] (afterCompact [field0] segs11) req5) = some [(0, 0), (1, 0)] := by
  decide

/-- non-vacuity of `wrong_dim_rejected`: a 2-dimensional query on the 1-dimensional field -/
example : (match searchReq [field0] segs2 reqBadDim with | .error .dim => true | _ => false) = true := by
  decide

/-- one segment, two text hits, the second without a vector -/
def segsH : List (Segment Nat Int) :=
  [[{ deleted := false, passFilter := true, passVFilter := true, textMatch := true, bm25 := some 3, vecs := [(0, [2])] },
    { deleted := false, passFilter := true, passVFilter := true, textMatch := true, bm25 := some 5, vecs := [] }]]

/-- non-vacuity of `effectivePlan`: alpha = 1 on a hybrid request means plain text search -/
example : outcomeDocs (searchReq [field0] segsH reqText) = none := by decide

/-- non-vacuity of `hybrid_hits_filtered`/`hybrid_order`: alpha = 0 keeps only the document
that has a vector -/
example : outcomeDocs (searchReq [field0] segsH reqHybrid) = some [(0, 0)] := by decide

end Witness

/-! ## 8. real-number semantics of the similarity and of the blend (`Rat`, abstract `sqrt`) -/

/-- a square-root function and an `f32::MIN` stand-in for rational scalars -/
class RatSqrt where
  sqrt : Rat → Rat
  fmin : Rat

instance ratScalar [RatSqrt] : Scalar Rat where
  zero := 0
  nzero := 0
  one := 1
  add := (· + ·)
  sub := (· - ·)
  mul := (· * ·)
  div := (· / ·)
  neg := (- ·)
  sqrt := RatSqrt.sqrt
  lt a b := decide (a < b)
  le a b := decide (a ≤ b)
  tlt a b := decide (a < b)
  isNan _ := false
  isFinite _ := true
  fmin := RatSqrt.fmin
  ofNat n := (n : Rat)

instance [RatSqrt] : TltLaws Rat where
  irrefl a := by simp [Scalar.tlt]
  trans a b c := by simp only [Scalar.tlt, decide_eq_true_eq]; intro h1 h2; grind
  total a b h := by
    simp only [Scalar.tlt, decide_eq_true_eq]
    grind

instance [RatSqrt] : OrdLaws Rat where
  lt_eq_tlt _ _ := rfl

theorem dotFrom_scaled [RatSqrt] (n m : Rat) (hn : n ≠ 0) (hm : m ≠ 0) :
    ∀ (a b : List Rat) (acc : Rat),
      dotFrom (acc / (n * m)) (a.map (fun v => Scalar.div v n)) (b.map (fun v => Scalar.div v m)) =
        dotFrom acc a b / (n * m) := by
  intro a
  induction a with
  | nil => intro b acc; cases b <;> simp [dotFrom]
  | cons x xs ih =>
    intro b acc
    cases b with
    | nil => simp [dotFrom]
    | cons y ys =>
      simp only [List.map_cons, dotFrom]
      have : Scalar.add (acc / (n * m)) (Scalar.mul (Scalar.div x n) (Scalar.div y m)) =
          (Scalar.add acc (Scalar.mul x y)) / (n * m) := by
        show acc / (n * m) + (x / n) * (y / m) = (acc + x * y) / (n * m)
        grind
      rw [this]
      exact ih ys _

/-- **cosine = dot product of the normalised vectors = the cosine of the angle**: for a cosine
field the model (like the code) normalises the stored vector at ingest and the query vector at
planning time and takes their dot product; over the rationals with any `sqrt` that is positive
on the two squared norms this is `a·b / (‖a‖ ‖b‖)`. -/
theorem cosine_is_cosine [RatSqrt] (a b : List Rat)
    (ha : 0 < RatSqrt.sqrt (normSq a)) (hb : 0 < RatSqrt.sqrt (normSq b)) :
    metricSim .cosine (prep .cosine a) (prep .cosine b) =
      dot a b / (RatSqrt.sqrt (normSq a) * RatSqrt.sqrt (normSq b)) := by
  have hla : Scalar.lt (Scalar.zero : Rat) (Scalar.sqrt (normSq a)) = true := by
    show decide ((0 : Rat) < RatSqrt.sqrt (normSq a)) = true
    simpa using ha
  have hlb : Scalar.lt (Scalar.zero : Rat) (Scalar.sqrt (normSq b)) = true := by
    show decide ((0 : Rat) < RatSqrt.sqrt (normSq b)) = true
    simpa using hb
  simp only [metricSim, prep, normalize, hla, hlb, if_true]
  have hnan : ∀ x : Rat, Scalar.isNan x = false := fun _ => rfl
  simp only [hnan, Bool.false_eq_true, if_false]
  unfold dot
  have hna : RatSqrt.sqrt (normSq a) ≠ 0 := by intro h; rw [h] at ha; exact absurd ha (by decide)
  have hnb : RatSqrt.sqrt (normSq b) ≠ 0 := by intro h; rw [h] at hb; exact absurd hb (by decide)
  have := dotFrom_scaled (RatSqrt.sqrt (normSq a)) (RatSqrt.sqrt (normSq b)) hna hnb a b 0
  have hz : (0 : Rat) / (RatSqrt.sqrt (normSq a) * RatSqrt.sqrt (normSq b)) = 0 := by grind
  rw [hz] at this
  exact this

/-- L2 similarity is the negated distance `−sqrt(Σ (aᵢ − bᵢ)²)` -/
theorem l2_is_neg_distance [RatSqrt] (a b : List Rat) :
    metricSim .l2 a b = - RatSqrt.sqrt (l2SqFrom 0 a b) := rfl

/-- **the documented blend**: for one clause with `0 < alpha < 1` the final score of a document
is `alpha · bm25 + (1 − alpha) · vec`, where `vec` is the clause's vector score of the document
(`missing_vector_score` of the metric when the document is not a candidate) -/
theorem blend_single_clause [RatSqrt] {κ : Type} [DecidableEq κ] (p : Plan κ Rat) (c : Clause κ Rat)
    (hc : p.clauses = [c]) (m : List (Cand Rat)) (bm25 : Rat) (seg doc : Nat)
    (h0 : 0 < c.alpha) (h1 : c.alpha < 1) :
    (hybridScore p [m] bm25 seg doc).final =
      c.alpha * bm25 + (1 - c.alpha) * ((lookupCand m seg doc).getD (missingScore c.metric)) := by
  rw [hybridScore_final, hc]
  have hle1 : Scalar.le (Scalar.one : Rat) c.alpha = false := by
    show decide ((1 : Rat) ≤ c.alpha) = false
    simp only [decide_eq_false_iff_not, Rat.not_le]; exact h1
  have hle0 : Scalar.le c.alpha (Scalar.zero : Rat) = false := by
    show decide (c.alpha ≤ (0 : Rat)) = false
    simp only [decide_eq_false_iff_not, Rat.not_le]; exact h0
  simp only [hybridAcc, blendClause, hle1, hle0, Bool.false_eq_true, if_false, blend, List.length_singleton]
  show (0 + (c.alpha * bm25 + (1 - c.alpha) * _)) / ((max 1 1 : Nat) : Rat) = _
  have : ((max 1 1 : Nat) : Rat) = 1 := rfl
  rw [this]
  grind

namespace Witness

/-- a `sqrt` that is right on the squared norms used below (both are 25) -/
instance : RatSqrt where
  sqrt _ := 5
  fmin := -1000000

/-- non-vacuity of `cosine_is_cosine`: the cosine of (3,4) and (4,3) is 24/25 -/
example : metricSim .cosine (prep .cosine [(3 : Rat), 4]) (prep .cosine [(4 : Rat), 3]) = 24 / 25 := by
  rw [cosine_is_cosine]
  · show ((0 : Rat) + 3 * 4 + 4 * 3) / (5 * 5) = 24 / 25
    grind
  · show (0 : Rat) < 5
    grind
  · show (0 : Rat) < 5
    grind

end Witness

end SL.Vec
