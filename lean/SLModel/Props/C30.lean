import SLModel.Core.Aggs
import SLModel.Lemmas.ISort
import SLModel.Lemmas.SMap
import SLModel.Lemmas.AggsOrder
import SLModel.Lemmas.AggsBuckets
import SLModel.Lemmas.AggsTree
import SLModel.Lemmas.KeysetOrd
import SLModel.Props.C12
/-!
# C30 — composite aggregation paging is complete

`compositePage size after bs` is `finalize_composite` on the merged bucket map `bs`
(`after` filter by `CompositeKey::cmp`, truncation to `size`, `after_key` = key of the last
returned bucket when more remain); `compositeWalk` is the client loop that sends every
`after_key` back as `after` through JSON (`composite_key_to_json` / `composite_key_from_value`).

* `key_json_roundtrip` — the JSON form of a key parses back to the key (source names distinct,
  part kinds = source kinds).
* `compositeKey_strictTotal` — `CompositeKey::cmp` is a strict total order; `f64Lt_strictTotal`
  — so is `total_cmp` on finite floats with both zeros (−0.0 < +0.0).
* `composite_walk_complete` — for every key-sorted bucket map with well-formed keys and every
  page size ≥ 1: the pages concatenate to the whole map (every bucket exactly once, same order,
  same counts and children), every page but the last is full and carries the key of its last
  bucket as `after_key`, and the last page — also when it is exactly full — carries none.
* `composite_keys_wf` — the keys the collector builds are well-formed for its sources;
  `mechanism_pages` — the mechanism's response for `(size, after)` (any segmentation) is `compositePage` of one bucket map that does not depend on
  `(size, after)`; `composite_paging_complete` puts the two together.

Tie to the code: `Drv/C30` runs `compositePage`, `afterOfKey`, `Part.lt`; the harness walks
the real aggregation by sending `after_key` back and compares every page with the model and the
concatenation with the unpaged response (implementation only).
-/
namespace SL.Aggs
open SL.ISort (StrictTotal)
open SL.KeysetOrd (Complete StrictOrder SortedBy)

section
variable {κ ν : Type} [KOrd κ] [DecidableEq κ] [DecidableEq ν]
set_option linter.unusedSectionVars false

/-! ## key ⇄ JSON -/

theorem objGet_keyToJson_not_mem (name : ν) :
    ∀ (ns : List ν) (ps : List (Part κ)) (acc : List (ν × PJ κ)), name ∉ ns →
      objGet name (keyToJson ns ps acc) = objGet name acc
  | [], _, _, _ => by simp [keyToJson]
  | _ :: _, [], _, _ => by simp [keyToJson]
  | n :: ns, p :: ps, acc, h => by
    have h1 : name ≠ n := fun e => h (by simp [e])
    have h2 : name ∉ ns := fun e => h (by simp [e])
    simp only [keyToJson]
    rw [objGet_keyToJson_not_mem name ns ps _ h2]
    simp [objGet, h1]

theorem objGet_keyToJson_zip :
    ∀ (ns : List ν) (ps : List (Part κ)) (acc : List (ν × PJ κ)), ns.Nodup →
      ∀ np ∈ ns.zip ps, objGet np.1 (keyToJson ns ps acc) = some np.2.toJ
  | [], _, _, _, np, h => by simp at h
  | _ :: _, [], _, _, np, h => by simp at h
  | n :: ns, p :: ps, acc, hnd, np, h => by
    rw [List.nodup_cons] at hnd
    simp only [List.zip_cons_cons, List.mem_cons] at h
    simp only [keyToJson]
    rcases h with rfl | h
    · rw [objGet_keyToJson_not_mem _ ns ps _ hnd.1]; simp [objGet]
    · exact objGet_keyToJson_zip ns ps _ hnd.2 np h

theorem keyFromJson_of_get (obj : List (ν × PJ κ)) :
    ∀ (srcs : List (ν × Bool)) (ps : List (Part κ)), wfKey srcs ps = true →
      (∀ np ∈ (srcs.map (·.1)).zip ps, objGet np.1 obj = some np.2.toJ) →
      keyFromJson obj srcs = some ps
  | [], [], _, _ => rfl
  | [], _ :: _, h, _ => by simp [wfKey] at h
  | (n, true) :: ss, .str s :: ps, h, hg => by
    have h0 := hg (n, .str s) (by simp)
    have ih := keyFromJson_of_get obj ss ps (by simpa [wfKey] using h)
      (fun np hnp => hg np (by simp [hnp]))
    simp only [keyFromJson, h0, Part.toJ, ih]
  | (n, false) :: ss, .num q :: ps, h, hg => by
    have h0 := hg (n, .num q) (by simp)
    have ih := keyFromJson_of_get obj ss ps (by simpa [wfKey] using h)
      (fun np hnp => hg np (by simp [hnp]))
    simp only [keyFromJson, h0, Part.toJ, ih]
  | (_, true) :: _, .num _ :: _, h, _ => by simp [wfKey] at h
  | (_, false) :: _, .str _ :: _, h, _ => by simp [wfKey] at h
  | (_, b) :: _, [], h, _ => by cases b <;> simp [wfKey] at h

/-- **key_json_roundtrip**: `composite_key_from_value (composite_key_to_json k) = Some k` for
every key built for the sources, provided the source names are distinct -/
theorem key_json_roundtrip (srcs : List (ν × Bool)) (ps : List (Part κ))
    (hnd : (srcs.map (·.1)).Nodup) (hwf : wfKey srcs ps = true) :
    afterOfKey srcs (Key.parts ps) = some ps := by
  unfold afterOfKey
  exact keyFromJson_of_get _ srcs ps hwf (objGet_keyToJson_zip _ ps [] hnd)

/-- two sources with the same name: the second value overwrites the first in the JSON object and
the key does not survive the round trip -/
theorem key_json_roundtrip_needs_distinct_names :
    afterOfKey [(0, true), (0, true)] (Key.parts [Part.str 1, Part.str 2] : Key Nat)
      = some [Part.str 2, Part.str 2] := by
  decide

/-! ## the comparators -/

/-- `CompositeKey::cmp` (and `CompositeKeyPart::cmp`) is a strict total order -/
theorem compositeKey_strictTotal (h : StrictTotal (KOrd.lt (κ := κ))) :
    StrictTotal (partsLt (κ := κ)) := partsLt_strictTotal h

/-- `f64::total_cmp` restricted to finite floats, both zeros included, is a strict total order -/
theorem f64Lt_strictTotal : StrictTotal f64Lt where
  irrefl a := by simp [f64Lt, Rat.lt_irrefl]
  trans a b c h1 h2 := by
    obtain ⟨qa, za⟩ := a; obtain ⟨qb, zb⟩ := b; obtain ⟨qc, zc⟩ := c
    simp only [f64Lt, Bool.or_eq_true, Bool.and_eq_true, decide_eq_true_eq, Bool.not_eq_true'] at *
    rcases h1 with h1 | ⟨⟨h1, h1'⟩, h1''⟩ <;> rcases h2 with h2 | ⟨⟨h2, h2'⟩, h2''⟩
    · left; grind
    · left; grind
    · left; grind
    · simp_all
  total a b hne := by
    obtain ⟨qa, za⟩ := a; obtain ⟨qb, zb⟩ := b
    simp only [f64Lt, Bool.or_eq_true, Bool.and_eq_true, decide_eq_true_eq, Bool.not_eq_true']
    by_cases hq : qa = qb
    · subst hq
      have hz : za ≠ zb := fun e => hne (by rw [e])
      cases za <;> cases zb <;> simp_all
    · have : qa < qb ∨ qb < qa := by grind
      rcases this with h | h
      · exact Or.inl (Or.inl h)
      · exact Or.inr (Or.inl h)

/-- −0.0 sorts strictly before +0.0 and they are different keys -/
example : f64Lt (0, true) (0, false) = true ∧ f64Lt (0, false) (0, true) = false := by decide

/-! ## the walk -/

theorem keyLt_strictOrder (h : StrictTotal (KOrd.lt (κ := κ))) : StrictOrder (Key.lt (κ := κ)) :=
  ⟨(keyLt_strictTotal h).irrefl, (keyLt_strictTotal h).trans⟩

theorem sortedBy_of_ksorted {bs : Buckets κ} (hs : KSorted Key.lt bs) :
    SortedBy Key.lt (fun x : Key κ × Nat × List (Node κ) => x.1) bs := by
  unfold SortedBy
  unfold KSorted at hs
  exact (List.pairwise_map.mp hs)

/-- one page of the model is one keyset response -/
theorem compositePage_eq_respond (size : Nat) (after : Option (List (Part κ))) (bs : Buckets κ) :
    compositePage size after bs =
      SL.KeysetOrd.respond Key.lt (fun x : Key κ × Nat × List (Node κ) => x.1) bs
        (after.map Key.parts) size := by
  cases after <;> rfl

/-- every key of the map is a composite key whose parts have the kinds of the sources -/
def WfKeys (srcs : List (ν × Bool)) (bs : Buckets κ) : Prop :=
  ∀ x ∈ bs, ∃ ps, x.1 = Key.parts ps ∧ wfKey srcs ps = true

theorem mem_of_respond_key {size : Nat} {after : Option (Key κ)} {bs page : Buckets κ} {k : Key κ}
    (h : SL.KeysetOrd.respond Key.lt (fun x : Key κ × Nat × List (Node κ) => x.1) bs after size
      = (page, some k)) : ∃ x ∈ bs, x.1 = k := by
  unfold SL.KeysetOrd.respond at h
  simp only at h
  split at h
  · simp only [Prod.mk.injEq] at h
    obtain ⟨_, h2⟩ := h
    cases hl : (List.take size (SL.KeysetOrd.cand Key.lt (fun x : Key κ × Nat × List (Node κ) => x.1) bs after)).getLast? with
    | none => rw [hl] at h2; simp at h2
    | some x =>
      rw [hl] at h2
      simp only [Option.map_some, Option.some.injEq] at h2
      refine ⟨x, ?_, h2⟩
      have hm := List.mem_of_getLast? hl
      have hm2 := List.mem_of_mem_take hm
      cases after with
      | none => exact hm2
      | some a => exact (List.mem_filter.mp hm2).1
  · simp at h

/-- the client's walk through JSON is the abstract keyset walk -/
theorem compositeWalk_eq (srcs : List (ν × Bool)) (hnd : (srcs.map (·.1)).Nodup) (size : Nat)
    (bs : Buckets κ) (hwf : WfKeys srcs bs) :
    ∀ (fuel : Nat) (after : Option (List (Part κ))),
      compositeWalk srcs size bs fuel after =
        SL.KeysetOrd.walk Key.lt (fun x : Key κ × Nat × List (Node κ) => x.1) bs size fuel
          (after.map Key.parts) := by
  intro fuel
  induction fuel with
  | zero => intro after; rfl
  | succ fuel ih =>
    intro after
    unfold compositeWalk SL.KeysetOrd.walk
    rw [compositePage_eq_respond]
    cases hr : SL.KeysetOrd.respond Key.lt (fun x : Key κ × Nat × List (Node κ) => x.1) bs
        (after.map Key.parts) size with
    | mk page ak =>
      cases ak with
      | none => rfl
      | some k =>
        obtain ⟨x, hx, hxk⟩ := mem_of_respond_key hr
        obtain ⟨ps, hps, hw⟩ := hwf x hx
        have hk : k = Key.parts ps := by rw [← hxk, hps]
        subst hk
        simp only
        rw [key_json_roundtrip srcs ps hnd hw, ih (some ps)]
        rfl

/-- **composite_walk_complete** — paging by sending each `after_key` back returns every bucket
of the map exactly once, in the same order, with the same counts and children; every page but
the last has exactly `size` buckets and its `after_key` is the key of its last bucket; the last
page has no `after_key` (also when it is exactly full). -/
theorem composite_walk_complete (h : StrictTotal (KOrd.lt (κ := κ))) (srcs : List (ν × Bool))
    (hnd : (srcs.map (·.1)).Nodup) (size : Nat) (hsize : 0 < size) (bs : Buckets κ)
    (hs : KSorted Key.lt bs) (hwf : WfKeys srcs bs) :
    Complete (key := fun x : Key κ × Nat × List (Node κ) => x.1) size bs
      (compositeWalk srcs size bs (bs.length + 1) none) := by
  rw [compositeWalk_eq srcs hnd size bs hwf]
  exact SL.KeysetOrd.walk_complete (keyLt_strictOrder h) bs (sortedBy_of_ksorted hs) size hsize

/-- the unpaged request (`size` at least the number of buckets, no `after`) returns the whole map
and no `after_key` -/
theorem unpaged_is_whole (size : Nat) (bs : Buckets κ) (hsz : bs.length ≤ size) :
    compositePage size none bs = (bs, none) := by
  unfold compositePage finalPost afterFilter
  have : ¬ size < bs.length := by omega
  simp [this]

/-- non-vacuity: three buckets, page size 2: pages [k1,k2] (after_key k2) and [k3] (none);
page size 3: one exactly-full page without after_key -/
example :
    let b (k : Nat) : Key Nat × Nat × List (Node Nat) := (Key.parts [Part.str k], k, [])
    let bs : Buckets Nat := [b 1, b 2, b 3]
    let srcs : List (Nat × Bool) := [(0, true)]
    (compositeWalk srcs 2 bs 4 none).map (fun p => (p.1.map (·.2.1), p.2)) =
      [([1, 2], some (Key.parts [Part.str 2])), ([3], none)] ∧
    (compositeWalk srcs 3 bs 4 none).map (fun p => (p.1.map (·.2.1), p.2)) = [([1, 2, 3], none)] := by
  decide

end

/-! ## tie to the mechanism of C12 -/

section
variable {φ κ ν : Type} [KOrd κ] [DecidableEq κ] [DecidableEq ν]
set_option linter.unusedSectionVars false

def CSrc.isTerms : CSrc φ → Bool
  | .terms _ => true
  | .hist _ _ _ => false

/-- (name, kind) of the sources, as `composite_key_from_value` walks them -/
def kindsOf (names : List ν) (srcs : List (CSrc φ)) : List (ν × Bool) :=
  List.zipWith (fun n (s : CSrc φ) => (n, s.isTerms)) names srcs

theorem wfKey_combos (d : Doc φ κ) :
    ∀ (names : List ν) (srcs : List (CSrc φ)), names.length = srcs.length →
      ∀ c ∈ combos (srcs.map (srcParts d)), wfKey (kindsOf names srcs) c = true
  | [], [], _, c, hc => by
    simp [combos] at hc; subst hc; rfl
  | [], _ :: _, hl, _, _ => by simp at hl
  | _ :: _, [], hl, _, _ => by simp at hl
  | n :: names, s :: srcs, hl, c, hc => by
    simp only [List.map_cons, combos, List.mem_flatMap, List.mem_map] at hc
    obtain ⟨v, hv, c', hc', rfl⟩ := hc
    have ih := wfKey_combos d names srcs (by simpa using hl) c' hc'
    cases s with
    | terms f =>
      simp only [srcParts, List.mem_map] at hv
      obtain ⟨x, _, rfl⟩ := hv
      simpa [kindsOf, CSrc.isTerms, wfKey] using ih
    | hist f i c64 =>
      simp only [srcParts, List.mem_map] at hv
      obtain ⟨x, _, rfl⟩ := hv
      simpa [kindsOf, CSrc.isTerms, wfKey] using ih

/-- **composite_buckets_wf** — every key the collector builds for a document is a composite key
whose parts have the kinds of the sources -/
theorem composite_keys_wf (names : List ν) (srcs : List (CSrc φ)) (hl : names.length = srcs.length)
    (size : Nat) (after : Option (List (Part κ))) (d : Doc φ κ) :
    ∀ k ∈ keysOf (.composite srcs size after) d,
      ∃ ps, k = Key.parts ps ∧ wfKey (kindsOf names srcs) ps = true := by
  intro k hk
  simp only [keysOf] at hk
  split at hk
  · simp at hk
  · simp only [List.mem_map] at hk
    obtain ⟨c, hc, rfl⟩ := hk
    exact ⟨c, rfl, wfKey_combos d names srcs hl c hc⟩

/-- the bucket map all pages of one composite aggregation are cut from: it does not depend on
`size` and `after` -/
def compositeMap (srcs : List (CSrc φ)) (subs : Aggs φ κ) (docs : List (Doc φ κ)) : Buckets κ :=
  rawBuckets (.composite srcs 0 none) (Spec.aggs subs) docs

theorem compositeMap_sorted (h : StrictTotal (KOrd.lt (κ := κ))) (srcs : List (CSrc φ))
    (subs : Aggs φ κ) (docs : List (Doc φ κ)) : KSorted Key.lt (compositeMap srcs subs docs) :=
  ksorted_rawBuckets h _ _ _

theorem compositeMap_wf (h : StrictTotal (KOrd.lt (κ := κ))) (names : List ν)
    (srcs : List (CSrc φ)) (hl : names.length = srcs.length) (subs : Aggs φ κ)
    (docs : List (Doc φ κ)) : WfKeys (kindsOf names srcs) (compositeMap srcs subs docs) := by
  intro x hx
  have hm := mem_rawBuckets_key h _ _ _ x hx
  simp only [extraKeys, List.append_nil, List.mem_flatMap] at hm
  obtain ⟨d, _, hd⟩ := hm
  exact composite_keys_wf names srcs hl 0 none d x.1 hd

/-- **mechanism_pages** — for every segmentation, the mechanism's response
to the composite request `(size, after)` is the page `compositePage size after` of the one map
`compositeMap`, whatever `size` and `after` are -/
theorem mechanism_pages (h : StrictTotal (KOrd.lt (κ := κ))) (srcs : List (CSrc φ))
    (size : Nat) (after : Option (List (Part κ))) (subs : Aggs φ κ)
    (s₀ : List (Doc φ κ)) (rest : List (List (Doc φ κ))) :
    run (.bucket (.composite srcs size after) subs) (s₀ :: rest) =
      some (.buckets (compositePage size after (compositeMap srcs subs (s₀ ++ rest.flatten))).1
                     (compositePage size after (compositeMap srcs subs (s₀ ++ rest.flatten))).2) := by
  rw [segmentation_independent h]
  simp only [Spec.agg]
  rfl

/-- **C30 for the mechanism (distinct source names)** — the pages obtained
by sending each `after_key` back are a complete, duplicate-free, order-preserving partition of
the buckets of the unpaged aggregation, and `after_key` is absent exactly on the last page -/
theorem composite_paging_complete (h : StrictTotal (KOrd.lt (κ := κ))) (names : List ν)
    (srcs : List (CSrc φ)) (hl : names.length = srcs.length) (hnd : names.Nodup)
    (size : Nat) (hsize : 0 < size) (subs : Aggs φ κ) (docs : List (Doc φ κ)) :
    let m := compositeMap srcs subs docs
    Complete (key := fun x : Key κ × Nat × List (Node κ) => x.1) size m
      (compositeWalk (kindsOf names srcs) size m (m.length + 1) none) := by
  intro m
  have hnames : (kindsOf names srcs).map (·.1) = names := by
    unfold kindsOf
    clear hnd
    induction names generalizing srcs with
    | nil => simp
    | cons n ns ih =>
      cases srcs with
      | nil => simp at hl
      | cons s ss => simp [ih ss (by simpa using hl)]
  exact composite_walk_complete h (kindsOf names srcs) (by rw [hnames]; exact hnd) size hsize m
    (compositeMap_sorted h srcs subs docs) (compositeMap_wf h names srcs hl subs docs)

end
end SL.Aggs
