#!/usr/bin/env python3
"""check — per-property verdicts for the searchlite Lean-4 verification framework.

  ./check --setup
  ./check Cnn [--tier quick|thorough] [--seed N]
  ./check Cnn --replay FILE

Per property (DESIGN.md §1.5):
  1. proof obligations: `lake build SLModel.Props.Cnn` + forbidden-token scan + Audit (axioms)
  2. harness rebuilt from /repo's working tree with `--cfg searchlite_verif`
  3. correspondence (model vs implementation) and finder (property predicate on the
     implementation alone) by `slh`
  4. verdict, replay files, evidence/Cnn.json
"""
import fcntl
import json
import os
import re
import subprocess
import sys
import time

VERIF = os.path.dirname(os.path.dirname(os.path.abspath(__file__)))
LEAN = f"{VERIF}/lean"
HARNESS = f"{VERIF}/harness"
ALLOWED_AXIOMS = {"propext", "Classical.choice", "Quot.sound"}
FORBIDDEN = re.compile(
    r"\bsorry\b|\badmit\b|^\s*axiom\s|native_decide|bv_decide|implemented_by|\bunsafe\s|maxHeartbeats\s+0\b",
    re.M,
)
TRUSTED_BASE = [
    "Lean 4.33.0 kernel (leanchecker re-check in thorough tier)",
    "axioms allowed: propext, Classical.choice, Quot.sound (Audit.lean lists them per theorem)",
    "theorem statements in lean/SLModel/Props (read them; kept apart from lemmas)",
    "model adequacy: checked by differential runs (correspondence), bounded by the generators",
    "Lean compiler/runtime for the slmodel driver; the Rust harness, hooks and this script",
]


REPLAYING = False


def load_cfg():
    try:
        return json.load(open(f"{VERIF}/tools/props.json"))
    except FileNotFoundError:
        return {}


def sh(cmd, cwd=None, timeout=None, env=None, log=None):
    t0 = time.time()
    e = dict(os.environ)
    e.setdefault("CARGO_NET_OFFLINE", "true")
    e["VERIF_ROOT"] = VERIF
    e["SLMODEL"] = f"{LEAN}/.lake/build/bin/slmodel"
    if env:
        e.update(env)
    try:
        p = subprocess.run(cmd, cwd=cwd, env=e, stdout=subprocess.PIPE, stderr=subprocess.STDOUT,
                           timeout=timeout, shell=isinstance(cmd, str))
        out = p.stdout.decode("utf-8", "replace")
        rc = p.returncode
    except subprocess.TimeoutExpired as ex:
        out = (ex.stdout or b"").decode("utf-8", "replace") + "\n[timeout]"
        rc = 124
    if log:
        with open(log, "a") as f:
            f.write(f"$ {cmd}\n{out}\n[rc={rc} {time.time()-t0:.1f}s]\n")
    return rc, out


class BuildLock:
    def __enter__(self):
        self.f = open(f"{VERIF}/.buildlock", "w")
        fcntl.flock(self.f, fcntl.LOCK_EX)
        return self

    def __exit__(self, *a):
        fcntl.flock(self.f, fcntl.LOCK_UN)
        self.f.close()


def strip_comments(src):
    # remove nested block comments and line comments (string literals in the model never
    # contain comment markers)
    out, i, depth = [], 0, 0
    while i < len(src):
        if src.startswith("/-", i):
            depth += 1
            i += 2
        elif depth and src.startswith("-/", i):
            depth -= 1
            i += 2
        elif depth:
            if src[i] == "\n":
                out.append("\n")
            i += 1
        elif src.startswith("--", i):
            while i < len(src) and src[i] != "\n":
                i += 1
        else:
            out.append(src[i])
            i += 1
    return "".join(out)


def forbidden_scan():
    hits = []
    for root, _, files in os.walk(f"{LEAN}/SLModel"):
        for fn in files:
            if fn.endswith(".lean"):
                p = os.path.join(root, fn)
                body = strip_comments(open(p).read())
                for m in FORBIDDEN.finditer(body):
                    line = body.count("\n", 0, m.start()) + 1
                    hits.append(f"{p}:{line}: {m.group(0).strip()}")
    return hits


AUTO_THM = re.compile(r"(\.eq_\d+|\.eq_def|\.match_\d+.*|\._.*|\.proof_\d+|\.injEq|\.sizeOf_spec|\.inj|\.noConfusion.*|\.congr_simp|\.fun_cases.*|\.induct.*|\.fun_cases_unfolding|\.induct_unfolding|\.eq_unfold)$")


def prove(pid, cfg, tier, log):
    """build + audit the property's theorems; returns dict"""
    mods = cfg.get("lean_modules", [f"SLModel.Props.{pid}"])
    res = {"modules": mods, "theorems": [], "obligations": 0, "discharged": 0, "ok": False, "errors": []}
    with BuildLock():
        rc, out = sh(["lake", "build"] + mods + ["slmodel"], cwd=LEAN, timeout=3000, log=log)
    if rc != 0:
        errs = [l for l in out.splitlines() if l.startswith("error")]
        res["errors"].append("lake build failed: " + "; ".join(errs[:5]))
        # which theorem broke, if lake tells us
        return res
    hits = forbidden_scan()
    if hits:
        res["errors"].append("forbidden tokens: " + "; ".join(hits[:5]))
    rc, out = sh(["lake", "env", "lean", "--run", "Audit.lean"] + mods, cwd=LEAN, timeout=600, log=log)
    if rc != 0:
        res["errors"].append("Audit failed: " + out[-400:])
        return res
    for line in out.splitlines():
        line = line.strip()
        if not line.startswith("{"):
            continue
        t = json.loads(line)
        if AUTO_THM.search(t["theorem"]):
            continue
        bad = [a for a in t["axioms"] if a not in ALLOWED_AXIOMS]
        res["theorems"].append({"name": t["theorem"], "axioms": t["axioms"], "ok": not bad})
        res["obligations"] += 1
        if not bad:
            res["discharged"] += 1
        else:
            res["errors"].append(f"theorem {t['theorem']} depends on {bad}")
    if res["obligations"] == 0:
        res["errors"].append("no theorems found in " + ",".join(mods))
    if tier == "thorough":
        for m in mods:
            rc, out = sh(["lake", "env", "leanchecker", m], cwd=LEAN, timeout=1800, log=log)
            res.setdefault("leanchecker", {})[m] = rc
            if rc != 0:
                res["errors"].append(f"leanchecker {m} rc={rc}: {out[-300:]}")
    res["ok"] = not res["errors"]
    return res


def build_harness(cfg, log):
    feats = cfg.get("features", [])
    cmd = ["cargo", "build", "--offline"]
    if feats:
        cmd += ["--features", ",".join(feats)]
    td = cfg.get("target_dir")
    if td and td.startswith("/verif/"):
        td = VERIF + td[len("/verif"):]
    env = {}
    if td:
        env["CARGO_TARGET_DIR"] = td
    if not os.path.exists(f"{HARNESS}/Cargo.lock") or \
            open(f"{HARNESS}/Cargo.lock").read() != open("/repo/Cargo.lock").read():
        # keep the lock file identical to the repository's (offline resolution)
        pass
    with BuildLock():
        rc, out = sh(cmd, cwd=HARNESS, timeout=3600, env=env, log=log)
    return rc, out


def load_known(pid):
    try:
        kf = json.load(open(f"{VERIF}/known_findings.json"))
    except FileNotFoundError:
        return []
    return [k for k in kf.get("findings", []) if k.get("property") == pid]


def sig_matches(pattern, sig):
    # a known-finding signature is a literal or a prefix ending in '*'
    if pattern.endswith("*"):
        return sig.startswith(pattern[:-1])
    return pattern == sig


def write_replay(pid, tier, seed, k, body):
    os.makedirs(f"{VERIF}/replays", exist_ok=True)
    p = f"{VERIF}/replays/{pid}-{tier}-{seed}-{k}.json"
    if REPLAYING:
        p = f"{VERIF}/replays/{pid}-replayed-{k}.json"
    with open(p, "w") as f:
        json.dump(body, f, indent=1)
    return p


def run_property(pid, tier, seed, replay):
    global REPLAYING
    REPLAYING = bool(replay)
    t0 = time.time()
    cfg = load_cfg().get(pid, {})
    os.makedirs(f"{VERIF}/logs", exist_ok=True)
    os.makedirs(f"{VERIF}/evidence", exist_ok=True)
    log = f"{VERIF}/logs/{pid}.log"
    open(log, "w").close()

    proofs = prove(pid, cfg, tier, log)

    summary = None
    harness_err = None
    rc, out = build_harness(cfg, log)
    if rc != 0:
        errs = [l for l in out.splitlines() if l.startswith("error")]
        harness_err = "harness build failed: " + "; ".join(errs[:6])
    else:
        outp = f"{VERIF}/logs/{pid}.summary.json"
        if os.path.exists(outp):
            os.remove(outp)
        td = cfg.get("target_dir", f"{HARNESS}/target")
        if td.startswith("/verif/"):
            td = VERIF + td[len("/verif"):]
        cmd = [f"{td}/debug/slh", pid, "--tier", tier, "--seed", str(seed), "--out", outp]
        if replay:
            cmd += ["--replay", replay]
        tmo = cfg.get("timeout_thorough", 7200) if tier == "thorough" else cfg.get("timeout_quick", 1500)
        rc, out = sh(cmd, cwd=HARNESS, timeout=tmo, log=log, env={"RUST_BACKTRACE": "0"})
        if rc != 0 or not os.path.exists(outp):
            harness_err = f"harness run failed rc={rc}: {out[-600:]}"
        else:
            summary = json.load(open(outp))

    known = load_known(pid)
    open_known = [k for k in known if k.get("status") == "open"]
    lines = []
    violations = []  # (kind, replay path, suffix)
    known_hit = {}
    k = 0
    seen_sigs = set()
    if summary:
        for f in summary.get("failures", []):
            sig = f.get("sig", "")
            m = [kf for kf in open_known if sig_matches(kf["sig"], sig)]
            if m:
                known_hit.setdefault(m[0]["sig"], 0)
                known_hit[m[0]["sig"]] += 1
                continue
            if sig in seen_sigs:
                continue
            seen_sigs.add(sig)
            k += 1
            p = write_replay(pid, tier, seed, k, {"property": pid, "kind": "property-violation", "sig": sig,
                                                  "what": f.get("what"), "seed": seed, "tier": tier,
                                                  "case": f.get("case"), "impl_observation": f.get("observed")})
            violations.append(("property-violation", p, ""))
        # signatures counted but whose examples were not kept
        for sig, n in summary.get("failure_sigs", {}).items():
            m = [kf for kf in open_known if sig_matches(kf["sig"], sig)]
            if m:
                known_hit[m[0]["sig"]] = max(known_hit.get(m[0]["sig"], 0), n)
    found_input = bool(violations)
    if summary and summary.get("n_disagreements", 0) > 0:
        k += 1
        p = write_replay(pid, tier, seed, k, {"property": pid, "kind": "correspondence", "seed": seed, "tier": tier,
                                              "n_disagreements": summary["n_disagreements"],
                                              "cases": [d.get("case") for d in summary["disagreements"]],
                                              "disagreements": summary["disagreements"],
                                              "note": "model and implementation differ on these cases; no input was found on which the property itself fails" if not found_input else "model and implementation differ on these cases"})
        violations.append(("correspondence", p, "" if found_input else " no-failing-input-found"))
    if harness_err:
        k += 1
        p = write_replay(pid, tier, seed, k, {"property": pid, "kind": "correspondence", "correspondence": "harness",
                                              "error": harness_err,
                                              "note": "the correspondence check could not be run against the current tree"})
        violations.append(("correspondence", p, "" if found_input else " no-failing-input-found"))
    if not proofs["ok"]:
        k += 1
        p = write_replay(pid, tier, seed, k, {"property": pid, "kind": "proof", "errors": proofs["errors"],
                                              "theorems": proofs["theorems"],
                                              "note": "proof obligations no longer check"})
        violations.append(("proof", p, "" if found_input else " no-failing-input-found"))

    for kf in open_known:
        n = known_hit.get(kf["sig"], 0)
        lines.append(f"KNOWN-FINDING: property={pid} {kf['what']} [sig={kf['sig']}; reproduced on this run: {n} case(s)]")
    for kind, p, suffix in violations:
        lines.append(f"VIOLATION property={pid} replay={p}{suffix}")

    wall = time.time() - t0
    if not replay:
        cov = {
            "obligations": proofs["obligations"],
            "discharged": proofs["discharged"],
            "checker_cmd": f"cd {LEAN} && lake build {' '.join(proofs['modules'])} && lake env lean --run Audit.lean {' '.join(proofs['modules'])}",
            "trusted_base": TRUSTED_BASE + cfg.get("trusted_extra", []),
            "theorems": proofs["theorems"],
            "proof_errors": proofs["errors"],
            "evaluations": (summary or {}).get("cases", 0),
            "distinct_nontrivial": (summary or {}).get("distinct_nontrivial", 0),
            "rule": (summary or {}).get("rule", ""),
            "samples": (summary or {}).get("samples", []) or [{"note": "no harness samples on this run"}],
            "traces_validated_against_impl": (summary or {}).get("traces_validated_against_impl", 0),
            "disagreements_checked": (summary or {}).get("cases", 0),
            "model_requests": (summary or {}).get("model_requests", 0),
            "n_disagreements": (summary or {}).get("n_disagreements", 0),
            "n_property_failures": (summary or {}).get("n_failures", 0),
            "failure_sigs": (summary or {}).get("failure_sigs", {}),
            "known_findings_hit": known_hit,
            "input_distribution": (summary or {}).get("distribution", {}),
            "notes": (summary or {}).get("notes", []),
            "exhaustive": (summary or {}).get("exhaustive", False),
            "harness_error": harness_err,
        }
        if tier == "thorough" and "leanchecker" in proofs:
            cov["leanchecker"] = proofs["leanchecker"]
        ev = {
            "property_id": pid, "tier": tier, "seed": seed, "level": "proof", "coverage": cov,
            "assumptions": cfg.get("assumptions", []) + [
                "the theorems are about the Lean model; the tie to the code is the differential run reported above",
            ],
            "wall_s": round(wall, 2),
            "violations": len(violations),
        }
        with open(f"{VERIF}/evidence/{pid}.json", "w") as f:
            json.dump(ev, f, indent=1)
    for l in lines:
        print(l)
    print(f"[{pid}] tier={tier} seed={seed} theorems={proofs['discharged']}/{proofs['obligations']} "
          f"cases={(summary or {}).get('cases', 0)} nontrivial={(summary or {}).get('distinct_nontrivial', 0)} "
          f"disagreements={(summary or {}).get('n_disagreements', 0)} failures={(summary or {}).get('n_failures', 0)} "
          f"wall={wall:.1f}s")
    return 1 if violations else 0


def setup():
    os.makedirs(f"{VERIF}/logs", exist_ok=True)
    log = f"{VERIF}/logs/setup.log"
    open(log, "w").close()
    with BuildLock():
        rc, out = sh(["lake", "build"], cwd=LEAN, timeout=7200, log=log)
    if rc != 0:
        print(out[-3000:])
        return rc
    subprocess.run(["cp", "/repo/Cargo.lock", f"{HARNESS}/Cargo.lock"])
    with BuildLock():
        rc, out = sh(["cargo", "build", "--offline"], cwd=HARNESS, timeout=7200, log=log)
    if rc != 0:
        print(out[-3000:])
        return rc
    cfgs = load_cfg()
    done = set()
    for pid, cfg in cfgs.items():
        key = (tuple(cfg.get("features", [])), cfg.get("target_dir"))
        if key == ((), None) or key in done:
            continue
        done.add(key)
        rc, out = build_harness(cfg, log)
        if rc != 0:
            print(out[-3000:])
            return rc
    # host build of the browser storage layer used by C27
    if os.path.isdir(f"{VERIF}/harness-wasm"):
        subprocess.run(["cp", "/repo/Cargo.lock", f"{VERIF}/harness-wasm/Cargo.lock"])
        with BuildLock():
            rc, out = sh(["cargo", "build", "--offline"], cwd=f"{VERIF}/harness-wasm", timeout=7200, log=log)
        if rc != 0:
            print(out[-3000:])
            return rc
    # the CLI binary used by C25 (built from /repo into the harness target directory)
    with BuildLock():
        rc, out = sh(["cargo", "build", "--offline", "-p", "searchlite-cli", "--manifest-path", os.environ.get("VERIF_REPO", "/repo") + "/Cargo.toml",
                      "--target-dir", f"{HARNESS}/target/cli"], cwd=HARNESS, timeout=7200, log=log)
    if rc != 0:
        print(out[-3000:])
        return rc
    print("setup ok")
    return 0


def main():
    args = sys.argv[1:]
    if not args:
        print(__doc__)
        return 2
    if args[0] == "--setup":
        return setup()
    pid = args[0]
    tier = os.environ.get("VERIF_TIER", "quick")
    seed = int(os.environ.get("VERIF_SEED", "1"))
    replay = None
    i = 1
    while i < len(args):
        if args[i] == "--tier":
            tier = args[i + 1]; i += 1
        elif args[i] == "--seed":
            seed = int(args[i + 1]); i += 1
        elif args[i] == "--replay":
            replay = os.path.abspath(args[i + 1]); i += 1
        i += 1
    if tier not in ("quick", "thorough"):
        tier = "quick"
    return run_property(pid, tier, seed, replay)


if __name__ == "__main__":
    sys.exit(main())
