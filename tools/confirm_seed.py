#!/usr/bin/env python3
"""Confirm a seeded change in a scratch worktree of /repo: (1) applies, compiles, the existing
suite passes with it; (2) the demonstration fails with it and (3) passes without it.
  tools/confirm_seed.py /tmp/seed/out/C01 [...]
Writes <dir>/confirm.json."""
import json, os, re, subprocess, sys
CD = os.environ.get("CONFIRM_DIR", "/tmp/confirm")
WT = f"{CD}/wt"; TD = f"{CD}/target"
EXTRA = {}
def sh(cmd, cwd=None):
    r = subprocess.run(cmd, cwd=cwd, shell=True, capture_output=True, text=True, env=dict(os.environ, CARGO_TARGET_DIR=TD, CARGO_NET_OFFLINE="true", **EXTRA))
    return r.returncode, r.stdout + r.stderr
os.makedirs(CD, exist_ok=True)
if not os.path.exists(WT):
    print(sh(f"git -C /repo worktree add --detach {WT} HEAD")[1][-300:])
for d in sys.argv[1:]:
    d = d.rstrip("/")
    res = {"seed": os.path.basename(d)}
    sh("git checkout -q -- . && git clean -fdq", WT)
    base = os.environ.get("SEED_BASE") or subprocess.run("git -C /repo rev-parse HEAD", shell=True, capture_output=True, text=True).stdout.strip()
    sh(f"git checkout -q --detach {base}", WT)
    res["base_commit"] = base
    run = open(f"{d}/run.txt").read()
    EXTRA.clear()
    if "searchlite_verif" in run:
        EXTRA["RUSTFLAGS"] = "--cfg searchlite_verif"
    m = re.search(r"(?:<worktree>|/tmp/seed/c\d+\w*)/(searchlite-\S+\.rs)", run) or re.search(r"(searchlite-[a-z]+/tests/\S+\.rs)", run)
    dest = m.group(1)
    feats = "--features vectors" if "--features vectors" in run else ""
    crate = dest.split("/")[0]
    test = os.path.basename(dest)[:-3]
    rc, out = sh(f"git apply {d}/patch.diff", WT)
    res["applies"] = rc == 0
    rc, out = sh("cargo test --workspace --no-fail-fast --offline 2>&1 | grep -E '^test result' | awk '{p+=$4; f+=$6} END {print p, f}'", WT)
    res["suite_with_change"] = out.strip()
    os.makedirs(os.path.dirname(f"{WT}/{dest}"), exist_ok=True)
    sh(f"cp {d}/demo.rs {WT}/{dest}")
    democmd = f"cargo test -p {crate} --offline {feats} --test {test} 2>&1 | grep -E '^test result|error(\\[|:)' | head -5"
    rc, out = sh(democmd, WT)
    res["demo_with_change"] = out.strip()
    sh("git checkout -q -- .", WT)
    rc, out = sh(democmd, WT)
    res["demo_without_change"] = out.strip()
    def failed(o):
        # a demo that does not compile is not a failing demo
        mm = re.search(r"(\d+) passed; (\d+) failed", o); return bool(mm) and int(mm.group(2)) > 0
    def passed(o):
        mm = re.search(r"(\d+) passed; (\d+) failed", o); return bool(mm) and int(mm.group(2)) == 0 and int(mm.group(1)) > 0
    res["ok"] = bool(res["applies"] and res["suite_with_change"].split()[-1:] == ["0"] and failed(res["demo_with_change"]) and passed(res["demo_without_change"]))
    sh("git clean -fdq", WT)
    json.dump(res, open(f"{d}/confirm.json", "w"), indent=1)
    print(json.dumps(res))
