#!/usr/bin/env python3
"""merge a work-package branch: files via git merge -X ours, shared JSON/registry files by union"""
import json, subprocess, sys
br = sys.argv[1]
take_props = set(sys.argv[2].split(',')) if len(sys.argv) > 2 else set()
def sh(*a, check=True):
    r = subprocess.run(a, cwd='/verif', capture_output=True, text=True)
    if check and r.returncode != 0:
        print(r.stdout, r.stderr); sys.exit(1)
    return r.stdout
def theirs(path):
    r = subprocess.run(['git', 'show', f'{br}:{path}'], cwd='/verif', capture_output=True, text=True)
    return r.stdout if r.returncode == 0 else None
r = subprocess.run(['git', 'merge', '--no-commit', '--no-ff', '-X', 'ours', br], cwd='/verif', capture_output=True, text=True)
print(r.stdout[-1500:], r.stderr[-500:])
# conflicted files (e.g. both added): take ours for shared, theirs otherwise
st = sh('git', 'status', '--porcelain')
for line in st.splitlines():
    if line[:2] in ('UU', 'AA', 'DU', 'UD'):
        p = line[3:]
        print('conflict', p)
        sh('git', 'checkout', '--ours', '--', p, check=False)
        sh('git', 'add', p)
# JSON unions
t = theirs('tools/claims.json')
if t:
    ours = json.load(open('/verif/tools/claims.json')); th = json.loads(t)
    for k, v in th.items():
        if k.startswith('_'): continue
        if k not in ours: ours[k] = v; print('claims +', k)
        elif k in take_props and ours[k] != v: ours[k] = v; print('claims ~', k)
    json.dump(ours, open('/verif/tools/claims.json', 'w'), indent=1)
t = theirs('known_findings.json')
if t:
    ours = json.load(open('/verif/known_findings.json')); th = json.loads(t)
    have = {(f['property'], f['sig']) for f in ours['findings']}
    for f in th.get('findings', []):
        if (f['property'], f['sig']) not in have:
            ours['findings'].append(f); print('finding +', f['property'], f['sig'])
        elif f['property'] in take_props:
            for i, o in enumerate(ours['findings']):
                if (o['property'], o['sig']) == (f['property'], f['sig']) and o != f:
                    ours['findings'][i] = f; print('finding ~', f['property'], f['sig'], f['status'])
    json.dump(ours, open('/verif/known_findings.json', 'w'), indent=1)
t = theirs('tools/props.json')
if t:
    ours = json.load(open('/verif/tools/props.json')); th = json.loads(t)
    for k, v in th.items():
        if k not in ours: ours[k] = v; print('props +', k)
    json.dump(ours, open('/verif/tools/props.json', 'w'), indent=1)
t = theirs('lean/SLModel.lean')
if t:
    ours = open('/verif/lean/SLModel.lean').read().splitlines()
    for l in t.splitlines():
        if l.strip() and l not in ours: ours.append(l); print('SLModel +', l)
    open('/verif/lean/SLModel.lean', 'w').write('\n'.join(ours) + '\n')
for p in ['harness/Cargo.toml', '.gitignore']:
    t = theirs(p)
    if t:
        ours = open('/verif/' + p).read()
        for l in t.splitlines():
            if l.strip() and l not in ours.splitlines():
                print(f'NOTE {p}: theirs has line not in ours: {l}')
