#!/usr/bin/env python3
"""Regenerate /verif/MANIFEST.json from tools/claims.json (one entry per claimed property)."""
import json, os
ROOT = os.path.dirname(os.path.dirname(os.path.abspath(__file__)))
props = [json.loads(l) for l in open(ROOT+'/properties.jsonl')]
claims = json.load(open(ROOT+'/tools/claims.json'))
hooks = claims.pop('_hooks', {})
na = claims.pop('_not_applicable', {})
checks = []
for p in props:
    c = claims.get(p['id'])
    if not c:
        continue
    checks.append({
        "property_id": p['id'],
        "quick_cmd": f"./check {p['id']} --tier quick",
        "thorough_cmd": f"./check {p['id']} --tier thorough",
        "evidence_file": f"/verif/evidence/{p['id']}.json",
        "replay_cmd_template": f"./check {p['id']} --replay {{path}}",
        "engine": "lean4-model+slh",
        "level_claimed": {"category": c.get("category", "proof"), "text": c["text"], "design_ref": c.get("design_ref", f"DESIGN.md §6 {p['id']}")},
        "level_note": c["note"],
        "technique": c.get("technique", "Lean 4 theorems about a hand-written executable model + checked correspondence (differential run against the implementation)"),
    })
m = {
    "version": 1,
    "setup_cmd": "cd /verif && ./check --setup",
    "hooks": {
        "guard": "searchlite_verif",
        "enable": "RUSTFLAGS=\"--cfg searchlite_verif\" (set in /verif/harness/.cargo/config.toml)",
        "baseline_off_cmd": "cd /repo && cargo test --workspace --no-fail-fast --offline",
        "source_commits": hooks.get("source_commits", []),
        "add_only": True,
    },
    "engines": [
        {"name": "lean4-model+slh", "path": "/verif/lean + /verif/harness + /verif/tools/check.py",
         "serves_properties": [c["property_id"] for c in checks],
         "kind_free_text": "Lean 4 project SLModel (executable model, theorems per property, slmodel JSON-lines driver, Audit of axioms) tied to the code by the Rust harness slh (differential correspondence + failing-input finder)"}
    ],
    "checks": checks,
    "notes": "See DESIGN.md. Known findings: /verif/known_findings.json. Seeded breaking changes: /verif/seeded/.",
    "not_applicable": [{"property_id": p['id'], "reason": na.get(p['id'], "check not built yet (build in progress; DESIGN.md §9 gives the order)")}
                       for p in props if p['id'] not in claims],
}
json.dump(m, open(ROOT+'/MANIFEST.json', 'w'), indent=1)
print("checks:", len(checks), "not_applicable:", len(m["not_applicable"]))
