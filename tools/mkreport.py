#!/usr/bin/env python3
"""Regenerate section 11 (build report) of DESIGN.md from evidence/, known_findings.json and seeded/*/meta.json.
The prose lives in tools/report_prose.md with placeholders {STATUS_TABLE} {FIXED_TABLE} {OPEN_TABLE} {SEEDED_TABLE}."""
import json, os, glob
R = os.path.dirname(os.path.dirname(os.path.abspath(__file__)))
props = [json.loads(l) for l in open(f'{R}/properties.jsonl')]
k = json.load(open(f'{R}/known_findings.json'))
rows = []
for p in props:
    pid = p['id']
    try:
        cov = json.load(open(f'{R}/evidence/{pid}.json'))['coverage']
        th = f"{cov['discharged']}/{cov['obligations']}"; ev = f"{cov['evaluations']} / {cov['distinct_nontrivial']}"
    except Exception:
        th = ev = '?'
    op = sum(1 for f in k['findings'] if f['property'] == pid and f['status'] == 'open')
    fx = sum(1 for f in k['findings'] if f['property'] == pid and f['status'] == 'fixed')
    rows.append(f"| {pid} | {p['title']} | {th} | {ev} | {fx} | {op} |")
status = "\n".join(rows)
def cell(s, n): return s[:n].replace('|', '/').replace('\n', ' ')
open_rows = "\n".join(f"| {f['property']} | `{f['sig']}` | {cell(f['what'], 300)} |" for f in k['findings'] if f['status'] == 'open')
fixed_rows = "\n".join(f"| {f['property']} | {f.get('commit','')} | `{f['sig']}` | {cell(f['what'].replace('fixed: property='+f['property']+' ',''), 240)} |" for f in k['findings'] if f['status'] == 'fixed')
srows = []
for d in sorted(glob.glob(f'{R}/seeded/*/meta.json')):
    m = json.load(open(d)); name = os.path.basename(os.path.dirname(d))
    cur = ''
    dj = os.path.join(os.path.dirname(d), 'detection.json')
    if os.path.exists(dj):
        dd = json.load(open(dj)); parts = []
        for pid, c in dd.get('checks', {}).items():
            if c.get('rc') == 1:
                sg = ', '.join(list(c.get('sigs', {}))[:3]) or ('correspondence only' if 'correspondence' in c.get('kinds', []) else 'violation')
                if c.get('no_failing_input_found'): sg += ' (no-failing-input-found)'
                parts.append(f"{pid}: VIOLATION {sg}")
            elif c.get('rc') == 0: parts.append(f"{pid}: not seen")
            else: parts.append(f"{pid}: {c.get('summary','?')}")
        cur = ('CAUGHT - ' if dd.get('caught') else 'MISSED - ') + '; '.join(parts) + f" [{dd.get('patch')}, /repo {dd.get('repo_head')}]"
    srows.append(f"| {name} | {m.get('breaks_property','')} | {cell(m.get('summary',''), 170)} | {cell(m.get('needs',''), 170)} | {m.get('checks_run','')} | {cell(m.get('detection',''), 220)} | {cell(cur, 260)} |")
seeded = "| id | property | change | needs | checks run | history | final sweep on the current tree |\n|----|----------|--------|-------|------------|---------|------|\n" + "\n".join(srows)
prose = open(f'{R}/tools/report_prose.md').read()
sec = prose.replace('{STATUS_TABLE}', status).replace('{FIXED_TABLE}', fixed_rows).replace('{OPEN_TABLE}', open_rows).replace('{SEEDED_TABLE}', seeded)
d = open(f'{R}/DESIGN.md').read()
marker = "\n---------------------------------------------------------------------------\n\n## 11. Build report"
if marker in d:
    head = d[:d.index(marker)]
    tail_marker = "\n## Appendix A"
    rest = d[d.index(marker):]
    tail = rest[rest.index(tail_marker):] if tail_marker in rest else ""
    d = head + sec + ("\n---------------------------------------------------------------------------\n" + tail if tail else "")
else:
    i = d.index("\n---------------------------------------------------------------------------\n\n## Appendix A")
    d = d[:i] + sec + d[i:]
open(f'{R}/DESIGN.md', 'w').write(d)
print("section 11 regenerated:", len(sec), "chars")
