#!/usr/bin/env python3
"""Run checks against a MUTATED COPY of /repo without touching /repo.

  tools/mutcheck.py --patch seeded/x/patch.diff C07 C09 [--tier quick] [--tests]
  tools/mutcheck.py --revert <commit> C02            # copy with one /repo commit reverted
  tools/mutcheck.py --none C07                        # unmodified copy (sanity)

Workspace: /tmp/mut/{repo,verif} (persistent, rsync'ed, so rebuilds are incremental).
The copied harness's path dependencies are rewritten to the copied repo.
"""
import os, subprocess, sys
W = "/tmp/mut"
SRC = "/verif"
def sh(cmd, cwd=None, check=True, quiet=False):
    r = subprocess.run(cmd, cwd=cwd, shell=isinstance(cmd, str), capture_output=True, text=True)
    if check and r.returncode != 0:
        print(r.stdout[-3000:], r.stderr[-3000:]); sys.exit(2)
    return r
args = sys.argv[1:]
patch = revert = None; tests = False; tier = "quick"; props = []
i = 0
while i < len(args):
    a = args[i]
    if a == "--patch": patch = os.path.abspath(args[i+1]); i += 1
    elif a == "--revert": revert = args[i+1]; i += 1
    elif a == "--none": pass
    elif a == "--tests": tests = True
    elif a == "--tier": tier = args[i+1]; i += 1
    elif a == "--work": W = args[i+1]; i += 1
    elif a == "--verif": SRC = args[i+1].rstrip("/"); i += 1
    else: props.append(a)
    i += 1
os.makedirs(W, exist_ok=True)
sh(f"rsync -a --delete --exclude /target /repo/ {W}/repo/")
sh("git checkout -q -- . && git clean -fdq", cwd=f"{W}/repo", check=False)
if patch:
    r = sh(["git", "apply", patch], cwd=f"{W}/repo", check=False)
    if r.returncode != 0:
        r = sh(["git", "apply", "-3", patch], cwd=f"{W}/repo", check=False)
        print("applied with 3-way merge" if r.returncode == 0 else "3-way failed")
    if r.returncode != 0:
        print("PATCH DOES NOT APPLY:", r.stderr[-1500:]); sys.exit(3)
if revert:
    r = sh(["git", "revert", "--no-commit", revert], cwd=f"{W}/repo", check=False)
    if r.returncode != 0:
        print("REVERT FAILED:", r.stderr[-1500:]); sys.exit(3)
print(sh("git status --short | head -20", cwd=f"{W}/repo").stdout)
sh(f"rsync -a --delete --exclude /harness/target/cli --exclude /logs --exclude /replays --exclude /evidence --exclude /.git {SRC}/ {W}/verif/")
for f in [f"{W}/verif/harness/Cargo.toml", f"{W}/verif/harness-wasm/Cargo.toml", f"{W}/verif/harness-wasm/src/main.rs"]:
    if os.path.exists(f):
        s = open(f).read().replace('path = "/repo/', f'path = "{W}/repo/')
        open(f, "w").write(s)
sh(f"cp {W}/repo/Cargo.lock {W}/verif/harness/Cargo.lock", check=False)
pj = f"{W}/verif/tools/props.json"
if os.path.exists(pj):
    txt = open(pj).read().replace('"/verif/', f'"{W}/verif/')
    open(pj, "w").write(txt)
env = dict(os.environ, VERIF_REPO=f"{W}/repo")
if tests:
    r = subprocess.run("cargo test --workspace --no-fail-fast --offline 2>&1 | grep -E '^test result|FAILED|failed|panicked' | awk '{p+=$4; f+=$6} END {print \"baseline tests: passed\",p,\"failed\",f}'",
                       cwd=f"{W}/repo", shell=True, capture_output=True, text=True, env=dict(env, CARGO_TARGET_DIR=f"{W}/repo-target"))
    print(r.stdout.strip())
rc_all = 0
for p in props:
    r = subprocess.run([f"{W}/verif/check", p, "--tier", tier], cwd=f"{W}/verif", capture_output=True, text=True, env=env)
    out = r.stdout.strip().splitlines()
    print(f"== {p}: rc={r.returncode}")
    keep = [l for l in out if l.startswith("VIOLATION") or l.startswith("[%s]" % p)]
    if not any(l.startswith("[%s]" % p) for l in out):
        # the check did not reach its verdict (build failure, crash): show why
        keep = out[-6:] + r.stderr.strip().splitlines()[-6:] + ["CHECK-DID-NOT-COMPLETE"]
    for l in keep[-12:]:
        print("   ", l.replace(f"{W}/verif", "<mut>"))
    rc_all |= r.returncode
sys.exit(rc_all)
