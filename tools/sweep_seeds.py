#!/usr/bin/env python3
"""Run the checks against every seeded change in /verif/seeded and record what they report.

  tools/sweep_seeds.py [--lanes N] [--only C07-a,C09-b] [--tier quick]

Each seed is applied to a mutated COPY of /repo (tools/mutcheck.py, one work directory per
lane under /tmp/sweep/laneK); /repo itself is never touched.  `patch.ported.diff` is used
instead of `patch.diff` when it exists (a seed whose context lines were rewritten by a later
fix: commit).  The result is written to seeded/<id>/detection.json:

  {"repo_head": ..., "verif_head": ..., "patch": "patch.diff|patch.ported.diff",
   "checks": {"C07": {"rc": 1, "summary": "[C07] tier=...", "sigs": {"strategy.default.missing-doc": 12, ...},
                       "kinds": ["property-violation", "correspondence"]}},
   "caught": true}
"""
import json, os, re, subprocess, sys, threading, queue, glob

ROOT = "/verif"
args = sys.argv[1:]
lanes = 3; only = None; tier = "quick"
i = 0
while i < len(args):
    if args[i] == "--lanes": lanes = int(args[i+1]); i += 1
    elif args[i] == "--only": only = set(args[i+1].split(",")); i += 1
    elif args[i] == "--tier": tier = args[i+1]; i += 1
    i += 1

def head(d):
    return subprocess.run(["git", "-C", d, "rev-parse", "--short", "HEAD"], capture_output=True, text=True).stdout.strip()

seeds = sorted(d for d in os.listdir(f"{ROOT}/seeded") if os.path.isdir(f"{ROOT}/seeded/{d}"))
if only: seeds = [s for s in seeds if s in only]
q = queue.Queue()
for s in seeds: q.put(s)
repo_head, verif_head = head("/repo"), head(ROOT)
lock = threading.Lock()

def props_for(meta):
    ps = [meta.get("breaks_property") or meta.get("property")]
    for p in (meta.get("checks_run") or "").split(","):
        p = p.strip()
        if p and p not in ps: ps.append(p)
    return [p for p in ps if p]

def run_seed(seed, lane):
    d = f"{ROOT}/seeded/{seed}"
    meta = json.load(open(f"{d}/meta.json"))
    patch = "patch.ported.diff" if os.path.exists(f"{d}/patch.ported.diff") else "patch.diff"
    W = f"/tmp/sweep/lane{lane}"
    out = {"repo_head": repo_head, "verif_head": verif_head, "patch": patch, "tier": tier, "checks": {}}
    caught = False
    for p in props_for(meta):
        for f in glob.glob(f"{W}/verif/replays/{p}-*"): os.remove(f)
        r = subprocess.run([sys.executable, f"{ROOT}/tools/mutcheck.py", "--work", W, "--patch", f"{d}/{patch}", "--tier", tier, p],
                           capture_output=True, text=True, cwd=ROOT)
        txt = r.stdout + r.stderr
        if "PATCH DOES NOT APPLY" in txt:
            out["checks"][p] = {"rc": None, "summary": "patch does not apply to the current tree"}
            continue
        m = re.search(r"== %s: rc=(\d+)" % p, txt)
        rc = int(m.group(1)) if m else r.returncode
        summ = [l.strip() for l in txt.splitlines() if l.strip().startswith("[%s]" % p)]
        sigs = {}; kinds = set()
        for f in sorted(glob.glob(f"{W}/verif/replays/{p}-{tier}-*.json")):
            try:
                rep = json.load(open(f))
            except Exception:
                continue
            kinds.add(rep.get("kind", "?"))
            if rep.get("sig"):
                sigs[rep["sig"]] = rep.get("n_failures") or rep.get("count") or len(rep.get("cases", [])) or 1
        nf = "no-failing-input-found" in txt and not sigs
        out["checks"][p] = {"rc": rc, "summary": summ[-1] if summ else txt.strip().splitlines()[-1:] and txt.strip().splitlines()[-1],
                            "sigs": sigs, "kinds": sorted(kinds), "no_failing_input_found": nf}
        complete = bool(summ) and "CHECK-DID-NOT-COMPLETE" not in txt
        out["checks"][p]["completed"] = complete
        if not complete:
            out["checks"][p]["rc"] = None
            out["checks"][p]["summary"] = "check did not complete: " + " / ".join(txt.strip().splitlines()[-4:])[:400]
        elif rc == 1 and "VIOLATION property=" in txt: caught = True
    out["caught"] = caught
    json.dump(out, open(f"{d}/detection.json", "w"), indent=1)
    with lock:
        print(seed, "CAUGHT" if caught else "MISSED", {p: (c.get("rc"), list(c.get("sigs", {}))[:3]) for p, c in out["checks"].items()}, flush=True)

def worker(lane):
    while True:
        try: s = q.get_nowait()
        except queue.Empty: return
        try: run_seed(s, lane)
        except Exception as e:
            with lock: print(s, "ERROR", e, flush=True)

ths = [threading.Thread(target=worker, args=(k,)) for k in range(lanes)]
for t in ths: t.start()
for t in ths: t.join()
