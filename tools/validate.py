#!/usr/bin/env python3
"""validate MANIFEST.json and evidence files against the schemas (python3-vt has jsonschema)"""
import json, os, sys, glob, jsonschema
ROOT = os.path.dirname(os.path.dirname(os.path.abspath(__file__)))
ok = True
m = json.load(open(ROOT+'/MANIFEST.json'))
try:
    jsonschema.validate(m, json.load(open('/root/.vp/MANIFEST.schema.json')))
    print('MANIFEST ok: checks=%d not_applicable=%d' % (len(m['checks']), len(m.get('not_applicable', []))))
except Exception as e:
    ok = False; print('MANIFEST INVALID', e)
es = json.load(open('/root/.vp/EVIDENCE.schema.json'))
for f in sorted(glob.glob(ROOT+'/evidence/*.json')):
    try:
        jsonschema.validate(json.load(open(f)), es)
    except Exception as e:
        ok = False; print('EVIDENCE INVALID', f, str(e)[:300])
ids = {c['property_id'] for c in m['checks']} | {c['property_id'] for c in m.get('not_applicable', [])}
props = [json.loads(l)['id'] for l in open(ROOT+'/properties.jsonl')]
missing = [p for p in props if p not in ids]
if missing:
    ok = False; print('properties neither claimed nor not_applicable:', missing)
sys.exit(0 if ok else 1)
